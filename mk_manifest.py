#!/usr/bin/env python3
"""Regenerates MANIFEST.json from the table below (run after adding a check)."""
import json, os

CHECKS = {
 "C02": dict(
   technique="exhaustive enumeration + property-based testing (proptest choice tape) against an independent precedence model",
   text="All 111,150 operator chains of length 1..4 are enumerated and compared with an independent model of the published table; random trees up to 10 operators over compound operands are printed with the required (plus redundant) parentheses and must parse back to the intended tree. Exhaustive for the enumerated sub-space, sampled beyond it.",
   note="Trusts the precedence table of reference/expressions.md as the specification and the engine's own AST normaliser; operands that would lex as a float literal (DIGIT . DIGIT) are discarded.",
   ref="DESIGN.md section 5 C02"),
}

CHECKS["C11"] = dict(
   technique="exhaustive token pairs/triples + property-based testing against a reference maximal-munch lexer, layout metamorphism",
   text="All pairs of a 65-token vocabulary under 7 separators and all triples of a 36-token vocabulary are tokenised and compared token by token (type, text, byte offset, line, column) with an independent reference lexer; random token sequences and statements of every shipped .ucg file are re-laid-out with random whitespace, CRLF and comments and must give the same tokens and the same parsed program; Unicode string literals with every escape form are checked at token level and in the evaluated value.",
   note="Trusts reference/grammar.md + types.md as the lexical specification; a boolean/NULL literal glued to a word character is unclaimed; column may be bytes or characters.",
   ref="DESIGN.md section 5 C11")
CHECKS["C03"] = dict(
   technique="property-based testing (generated value trees) with independent decoders as round-trip oracle",
   text="Generated value trees are converted by the json/yaml/toml/yamlmulti converters (registry call, `convert` expression and `out` statement of an evaluated program); the bytes are decoded by Python json / tomllib / PyYAML with a YAML-1.2 core-schema resolver and compared with the value (nesting, order, key set, strings, booleans, nulls, exact integers, float value). Unrepresentable values must be errors.",
   note="Trusts the Python decoders as the meaning of the formats; serde_* parsers only classify decoder limitations; TOML corner cases the 0.5 serializer cannot express may be errors.",
   ref="DESIGN.md section 5 C03")

CHECKS["C04"] = dict(
   technique="property-based testing + corpus enumeration with a crash/termination validity predicate (catch_unwind, supervised worker, deterministic work counter)",
   text="Every shipped .ucg file and fuzz-corpus file, plus generated token soups, token mutations of those files, edge-arithmetic programs and nesting up to 64 levels go through every stage (tokenize, parse, type check, translate, format, evaluate strict/non-strict, 8 converters) in a supervised worker process; a panic, an abort of the worker or a stage exceeding its polynomial work bound (ucg_verif hook) is a violation; 1 in 40 inputs also runs through the real binary (build, fmt, test: exit 0/1 with a message).",
   note="Termination is decided by the work counter of the ucg_verif hook (bounds stated in the evidence); the wall clock is only a watchdog and yields exit 2, never a violation. Ranges longer than 10^6, nesting beyond 64 and module self-recursion are excluded as the property states.",
   ref="DESIGN.md section 5 C04")
CHECKS["C12"] = dict(
   technique="property-based testing (generated document tuples) with an independent XML parser (expat) as round-trip oracle",
   text="Generated document tuples (element trees, text nodes, attributes, namespaces, declarations, NULLs, malformed kinds) are converted by the xml converter; expat parses the bytes and the parsed tree (names, nesting, attributes, namespace declarations, text) must equal the described document; malformed documents and characters XML cannot hold must be errors; 1 in 8 also through a `convert xml` expression.",
   note="Trusts expat as the meaning of well-formedness; tolerates only what XML makes unobservable (line-end and attribute-value normalisation, indentation whitespace between tags, repeated identical namespace declarations).",
   ref="DESIGN.md section 5 C12")

CHECKS["C08"] = dict(
   technique="exhaustive enumeration + property-based testing with real shells (dash, bash) as the oracle",
   text="Every string up to length 3 (quick) / 5 (thorough) over {' \" \\ $ ` space newline * a} is placed as env value, flag value, list-flag item, exec command, exec argument, exec env value and exec flag-tuple value, and all 1,364 tuples of 1..5 fields over {scalar, NULL, list, tuple} are converted by env and flags; /bin/sh and bash source / eval the converter output and report the variables and argument words they see, which must equal the inputs, with no side effect in the working directory; random Unicode strings and command-substitution payloads extend the enumeration.",
   note="Trusts dash and bash as 'a POSIX shell'; exec scripts are read with `exec` replaced by a reporting function; names are safe identifiers.",
   ref="DESIGN.md section 5 C08")
CHECKS["C15"] = dict(
   technique="property-based testing: generated documents from independent emitters, Python decoders as self-check and as oracle for corrupted variants",
   text="Generated trees are written as JSON / YAML / TOML documents by the harness's own emitters (many spellings of the same data) and included through a built file; the bound value must equal the tree. Python's decoders must agree with the tree first (emitter self-check) and decide truncated / corrupted / whitespace-only variants. include str / b64 / b64urlsafe are checked against the file text and an own base64 implementation on arbitrary bytes; several includes of one file in one build must each equal the include alone; unknown types must fail.",
   note="Restricted to constructs on which decoders agree (unique string keys, no anchors/tags, 64-bit integers, homogeneous TOML arrays); corrupted-YAML accept/reject disagreements are counted, not alarmed; an empty data file is excluded.",
   ref="DESIGN.md section 5 C15")

CHECKS["C14"] = dict(
   level="fault_enumeration",
   technique="property-based testing with fault enumeration: converters x (un)convertible values x pre-existing artifact states, out-vs-convert relation and directory snapshots as oracle",
   text="For every registered converter, generated values (1 in 4 deliberately unconvertible, enumerated per converter) are built with 0, 1 or 2 out statements in directories with no, an earlier-build or a foreign pre-existing artifact and four file stems, in-process and (1 in 8) by the real binary; the directory is snapshotted before and after: one new file with the documented extension, byte-equal to the string `convert` evaluates to; a failed conversion leaves the directory byte-identical; a second out fails the build.",
   note="Convertibility is decided by evaluating `convert <fmt> <value>` (the relation the property states); extensions come from reference/converters.md.",
   ref="DESIGN.md section 5 C14")

CHECKS["C01"] = dict(
   technique="property-based differential testing against a reference interpreter written from the language reference",
   text="Typed, size-bounded programs over the whole expression language (with deliberately failing sub-terms placed where short-circuit and select must skip them, parameter names shadowing earlier and later bindings, permuted tuple comparisons) are rendered with minimal parentheses, evaluated by a tree-walking reference interpreter that implements the language reference, and by the implementation (eval_string and build(path)); success/failure and every top-level binding must agree. Behaviour the reference leaves undefined is excluded and counted.",
   note="The reference interpreter is the trusted base (DESIGN.md Appendix A lists every rule and its source); disagreements were triaged against the reference text before being called defects.",
   ref="DESIGN.md section 5 C01, Appendix A")

CHECKS["C07"] = dict(
   technique="property-based differential testing: evaluation without the static checker vs file build with it",
   text="Well-typed programs of the C01 generator's first-order fragment (incl. functional ops over tuples and strings, calls through tuple fields, computed selectors, heterogeneous tuples behind lists and selects, shadowing parameter names, module instantiation) that evaluate through eval_string (no checker) are built as files (checker + VM); the build must succeed and bind equal values. Programs that do not evaluate are discarded and counted.",
   note="Assumes eval_string bypasses the checker and build(path) runs it first (environment.rs); runaway programs are bounded by the reference interpreter's size limits and the work-limit hook.",
   ref="DESIGN.md section 5 C07")

CHECKS["C05"] = dict(
   technique="property-based round-trip testing (parse o print) with layout metamorphism and corpus enumeration",
   text="Every shipped .ucg file and generated programs (all literal forms, extra statement kinds) re-laid-out at token level with random whitespace, CRLF, trailing commas, redundant parentheses and comments (between any tokens, or on their own lines between statements) are formatted through the library path of `ucg fmt` and a sample through the binary (also -w): the result must parse to the same position-free program (field quoting ignored), keep every comment text in order, and formatting it again must return it unchanged.",
   note="Trusts the engine's AST normaliser and reference lexer (comments); the fixed-point clause is asserted within the property's stated scope (comments on own lines between statements) and counted outside it.",
   ref="DESIGN.md section 5 C05")
CHECKS["C10"] = dict(
   technique="property-based metamorphic testing (prefix runs) + scoping templates decided by the reference interpreter + enumerated must-fail programs",
   text="Generated programs are evaluated at every statement boundary: a failing prefix must stay failing and each name bound by a prefix must keep its value in every longer prefix; name-collision templates (parameters, callback parameters, module locals and format `item` against outer bindings made before or after; closures called after later bindings; functions returning functions; modules referring to file scope) are compared with the reference interpreter's lexical scoping; rebinding (let and constraint statements) and all 20 reserved words must be rejected.",
   note="Reserved words are the list the property anchors on (vm.rs + env/true/false); template expectations rest on the reference interpreter's scoping rules.",
   ref="DESIGN.md section 5 C10")

CHECKS["C13"] = dict(
   technique="property-based model-based testing of the CLI (verdict model) with order metamorphism",
   text="Generated *_test.ucg files (true / false / malformed asserts, visible and hidden behind calls; run-time and syntax build errors) are given to the real `ucg test` in every order of 1..4 files and with -r; per-file logs, verdict lines, RESULTS lines and the exit status are parsed and compared with the verdict model; each assertion must appear exactly once, numbered consecutively, in its own file's log only.",
   note="The model is the property's statement; a malformed assert the static checker can see may legitimately stop the build instead of being logged.",
   ref="DESIGN.md section 5 C13")

CHECKS["C16"] = dict(
   technique="property-based differential testing of the CLI: each file alone in a fresh process vs every order of the batch, fresh and repeated",
   text="Generated projects of 2..6 files (libraries with functions/modules and optional out, entry files importing and using them, failing files, identical stems in two directories) are built by the real binary file by file (baseline) and then in every permutation of the file list (12 random orders beyond 4 files) twice on fresh copies and once repeated on the same directory, plus -r; per-file failure diagnostics, artifact bytes and exit status must equal the baseline.",
   note="'Any number of times' is exercised as two fresh runs and one repetition; per-file failure is read from the `Error building file:` diagnostics.",
   ref="DESIGN.md section 5 C16")

CHECKS["C17"] = dict(
   technique="property-based single-fault injection into generated valid programs with recorded statement spans; validity predicate on the reported position plus a metamorphic shift relation",
   text="Valid programs of 3..12 multi-line statements (12 statement shapes) get exactly one of 17 faults injected into one expression slot, optionally buried under further (multi-line) nesting; the program without the fault must evaluate. Through eval_string and a file build the diagnostic's first non-VIA line/column must lie in the faulty statement's span, a run-time fault inside a function body must list the calling statement in a VIA line, and inserting 1 or 3 lines before / 2 after must move the line by exactly that / not at all.",
   note="The primary position is taken to be the first `line: N column: M` of the diagnostic outside VIA lines. A fault the static checker finds at the definition needs no call site.",
   ref="DESIGN.md section 5 C17")
CHECKS["C18"] = dict(
   technique="property-based testing of the CLI with the harness-set environment as oracle",
   text="Random environments (0..20 variables, arbitrary Unicode values) plus a planted secret are given to the real binary with a cleared environment; generated programs read set and unset names (bare and quoted selectors; top level, function, module, format expression, through a binding) in strict mode and with --no-strict; the JSON artifact must equal the value set, unset names must fail naming the variable (strict) or be null, no output may contain the secret or other variables' values; `let env` must be rejected and fields named env must resolve to the field.",
   note="The JSON artifact is decoded with serde_json (its correctness is C03's subject).",
   ref="DESIGN.md section 5 C18")
CHECKS["C20"] = dict(
   technique="stateful property-based testing of the real `ucg lsp` over stdio: generated message histories with a liveness check, a range-validity predicate, a differential against a fresh server on the current texts, and differentials against the compiler's parser and build",
   text="Sessions of 1..30 messages over 1..3 documents (two unsaved buffers, one file also on disk, two library files) with generated programs, hand-written lines (imports, non-ASCII, multi-line), token mutations, soups, arbitrary UTF-8/CRLF and blank texts; request positions anywhere incl. beyond the text and at u32 extremes. After every message: server alive, request answered without error, every reported range inside the text it names (UTF-16), diagnostics equal to a fresh server's on the current texts, equal to the compiler's parser verdict and position on a syntax error, empty when the compiler builds the text; every answer equal to the fresh server's; didClose clears diagnostics.",
   note="A one-character marker range may stick out of its line by one (ucg marks positions that way); lone CR and self-imports are not generated; no answer within 30 s is inconclusive (exit 2).",
   ref="DESIGN.md section 5 C20")
CHECKS["C09"] = dict(
   technique="property-based model-based testing of the CLI on generated project trees (path-resolution / evaluate-once / cycle model)",
   text="Generated projects of 2..8 files in nested directories with random DAG or cyclic import graphs, import expressions at 13 syntactic positions and paths in several equivalent spellings are built by the real binary from four working directories / argument spellings; for DAGs the artifact must hold the sum the generator computed and stderr exactly one TRACE line per reachable file; for cyclic graphs every run must exit 1 with a cycle diagnostic, never crash or hang.",
   note="'Evaluated once' is read off TRACE lines; a hang is only reported after the run exceeded 60 s three times in a row.",
   ref="DESIGN.md section 5 C09")

CHECKS["C19"] = dict(
   technique="property-based testing against reference implementations of each helper",
   text="Random lists, tuples, strings, separators and indices are passed to every listed std helper through `import \"std/...\"` in files built with the checker on (six calls per build); each bound value is compared with a Rust reference implementation of the helper's documented behaviour, plus the reverse involution and the split_on / str_join round trip.",
   note="Inputs stay within what each helper documents; calls the static checker rejects are discarded and counted (C07).",
   ref="DESIGN.md section 5 C19")

CHECKS["C06"] = dict(
   technique="property-based testing against a conformance predicate written from the property text, with inline / named / let-bound metamorphism",
   text="Generated (constraint, value) pairs - exemplars nested to depth 3 with same-shape or perturbed values, int/float ranges open or closed with all boundary neighbours, alternations of literals and ranges - are built with the constraint written inline, behind a `constraint` name and behind a let-bound exemplar, and with the value written as a literal or computed so that its static type is hidden; the build must succeed iff the conformance predicate holds and all forms must agree.",
   note="One open finding (exemplar constraints are enforced only statically, by documented design) is listed in KNOWN_FINDINGS and excluded by its exact signature; NULL against a range or alternation is unstated and only counted.",
   ref="DESIGN.md section 5 C06")

PENDING = {}

def main():
    here = os.path.dirname(os.path.abspath(__file__))
    ids = [json.loads(l)["id"] for l in open(os.path.join(here, "properties.jsonl"))]
    checks = []
    for pid in ids:
        if pid not in CHECKS: continue
        c = CHECKS[pid]
        checks.append({
            "property_id": pid,
            "quick_cmd": f"./check {pid} quick",
            "thorough_cmd": f"./check {pid} thorough",
            "evidence_file": f"/verif/evidence/{pid}.json",
            "replay_cmd_template": f"./check {pid} quick --replay {{path}}",
            "engine": "ucgverif",
            "level_claimed": {"category": c.get("level", "exploration"), "text": c["text"] + ADDS.get(pid, ""), "design_ref": c["ref"]},
            "level_note": c["note"],
            "technique": c["technique"],
        })
    na = [{"property_id": pid, "reason": PENDING.get(pid, "check not built yet in this session (work in progress); nothing is claimed for it")}
          for pid in ids if pid not in CHECKS]
    m = {
        "version": 1,
        "setup_cmd": "./setup.sh",
        "hooks": {
            "guard": "--cfg ucg_verif",
            "enable": "RUSTFLAGS='--cfg ucg_verif' (set by /verif/build.sh for the engine crate, which depends on /repo by path, and for the ucg CLI binary)",
            "baseline_off_cmd": "cd /repo && cargo test --workspace --no-fail-fast --offline",
            "source_commits": HOOK_COMMITS,
            "add_only": True,
        },
        "engines": [{
            "name": "ucgverif",
            "path": "/verif/engine",
            "serves_properties": [c["property_id"] for c in checks],
            "kind_free_text": "Rust binary: proptest-driven choice-tape generators, explicit oracles per property, sharded runner with shrinking, replay files and evidence writer",
        }],
        "checks": checks,
        "notes": "Every check: ./check <id> <quick|thorough>; rebuilds engine + ucg CLI from /repo's working tree; exit 0 held, 1 VIOLATION, 2 inconclusive/harness trouble. Known findings: /verif/KNOWN_FINDINGS.",
        "not_applicable": na,
    }
    json.dump(m, open(os.path.join(here, "MANIFEST.json"), "w"), indent=1)
    print("wrote MANIFEST.json with", len(checks), "checks;", len(na), "not claimed")


# what the three rounds of seeded changes added to each generator (DESIGN.md 10.4)
ADDS = {
 "C01": " The generator also produces copy statements with `self` (also inside format expressions), parameter shadowing, heterogeneous tuples, record functions reading several fields, boolean selects with arms of other names, mixed list joins and float edge values (-0.0, inf, NaN).",
 "C02": " Also runs of 40..160 operators of one precedence level.",
 "C03": " 1 in 8 values is also built as a file next to older, longer artifacts of the same name and the artifact decoded.",
 "C04": " Also: constraint programs (recursive, mutually recursive, ill-founded; exemplars nested up to 40 deep), includes of empty / malformed / binary / missing data files, functions with repeated parameter names, functional operations nested 31 deep in callbacks (walker work counted by the hook), valid programs with comments between any two tokens, and flat chains of 300..6000 operators through the binary.",
 "C06": " Also composite (tuple / list) alternatives with prefix / extension probes, values built by copy with overrides, and the grouped form `:: (name)`.",
 "C07": " Also record functions reading up to four fields of one argument and called at once, copies of select / filter results, joins of lists of different lengths and element types.",
 "C08": " Also nested lists / tuples inside list flags.",
 "C09": " Also byte-identical twin files in two directories, absolute spellings with redundant segments, imports in format-expression arguments and templates, and imports deferred through a function of a finished helper file, and a same-named decoy file of another shape next to the entry file.",
 "C10": " Also reserved words as function / callback parameters, scope templates built as files (incl. a module nested in a module), and 1 in 40 cases as a `ucg repl` session of refused rebindings.",
 "C11": " Also string literals read from a file on disk (1 in 8) and multi-line literals typed into `ucg repl` (1 in 400).",
 "C12": " Also `ns = \"\"` under an inherited default namespace, xmlns declared through attrs, Latin Extended / IPA names.",
 "C13": " Also asserts in the body of a module instantiated by a function applied through map, and one run per case with --no-strict, and helper files with asserts imported by several test files (logged and counted once per importing file).",
 "C14": " Also nested evaluation (calls, map/reduce, format expressions, module instantiation, imports) before and between out statements.",
 "C15": " Also stray bytes that make a document invalid UTF-8, files of 1..4 KiB for the raw types, unknown include types on empty files; every case in strict mode and again under --no-strict.",
 "C16": " Also lazily linked broken imports, artifacts of files that fail alone, the batch from a directory below spelled with ../, a data file decoded by two importers, and a shared library across two directories with same-named siblings, entry files that instantiate a shared library module whose body has an out, and libraries with both an out and such a module.",
 "C17": " Also call arguments of the wrong type, calls nested in calls, lists bound in their own statement mapped / filtered by named functions elsewhere, missing fields of select results, failed casts to float and bool inside an int cast.",
 "C18": " Also several variables per program, reads under `ucg [--no-strict] test`, and strict reads of an unset variable typed into `ucg repl`.",
 "C19": " Also reversed slice indices and non-ASCII digits after the integer of parse_int.",
 "C20": " Also edits that move the same text, didChange notifications carrying superseded entries, and six diamonds of disk files whose middle file is opened and closed before the top.",
}

HOOK_COMMITS = ["dcce9ec", "ed84aac", "d7a09f4"]
if __name__ == "__main__":
    main()
