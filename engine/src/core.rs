//! Core types shared by every property module.

use serde_json::{json, Value as J};

#[derive(Clone, Copy, PartialEq, Eq, Debug)]
pub enum Tier {
    Quick,
    Thorough,
}

impl Tier {
    pub fn name(self) -> &'static str {
        match self {
            Tier::Quick => "quick",
            Tier::Thorough => "thorough",
        }
    }
}

#[derive(Clone, Debug, PartialEq)]
pub enum Verdict {
    Pass,
    /// `sig` is the exact signature used to match a known finding; `msg`
    /// explains the failure to a human.
    Fail { sig: String, msg: String },
    /// The case is outside the property's domain (counted, not compared).
    Discard(String),
}

#[derive(Clone, Debug)]
pub struct Outcome {
    pub verdict: Verdict,
    pub nontrivial: bool,
    /// hash of the canonical encoding of the case (distinctness)
    pub key: u64,
    /// class labels (generator distribution, exclusions …)
    pub classes: Vec<String>,
    /// the case written out for a reader
    pub rendered: String,
    /// generator-independent encoding of the case (replayed through `run_text`);
    /// replay files prefer it so that later generator changes cannot alter them
    pub portable: Option<String>,
}

impl Outcome {
    pub fn pass(rendered: String) -> Self {
        let key = crate::tape::fnv(rendered.as_bytes());
        Outcome {
            verdict: Verdict::Pass,
            nontrivial: false,
            key,
            classes: vec![],
            rendered,
            portable: None,
        }
    }
    pub fn discard(reason: &str, rendered: String) -> Self {
        let key = crate::tape::fnv(rendered.as_bytes());
        Outcome {
            verdict: Verdict::Discard(reason.to_string()),
            nontrivial: false,
            key,
            classes: vec![],
            rendered,
            portable: None,
        }
    }
    pub fn fail(&mut self, sig: &str, msg: String) {
        // keep the first failure
        if let Verdict::Fail { .. } = self.verdict {
            return;
        }
        self.verdict = Verdict::Fail {
            sig: sig.to_string(),
            msg,
        };
    }
    pub fn class(&mut self, c: &str) {
        if !self.classes.iter().any(|x| x == c) {
            self.classes.push(c.to_string());
        }
    }
    /// prefix the message of a failure with the mode it was seen in
    pub fn note_mode(&mut self, note: &str) {
        if let Verdict::Fail { msg, .. } = &mut self.verdict {
            *msg = format!("[{}] {}", note, msg);
        }
    }
    pub fn is_fail(&self) -> bool {
        matches!(self.verdict, Verdict::Fail { .. })
    }

    pub fn to_json(&self) -> J {
        let (v, sig, msg) = match &self.verdict {
            Verdict::Pass => ("pass", String::new(), String::new()),
            Verdict::Fail { sig, msg } => ("fail", sig.clone(), msg.clone()),
            Verdict::Discard(r) => ("discard", String::new(), r.clone()),
        };
        json!({"v": v, "sig": sig, "msg": msg, "nt": self.nontrivial,
               "key": format!("{:x}", self.key), "cls": self.classes, "r": self.rendered, "p": self.portable})
    }

    pub fn from_json(j: &J) -> Option<Outcome> {
        let v = j.get("v")?.as_str()?;
        let sig = j.get("sig")?.as_str()?.to_string();
        let msg = j.get("msg")?.as_str()?.to_string();
        let verdict = match v {
            "pass" => Verdict::Pass,
            "fail" => Verdict::Fail { sig, msg },
            _ => Verdict::Discard(msg),
        };
        Some(Outcome {
            verdict,
            nontrivial: j.get("nt")?.as_bool()?,
            key: u64::from_str_radix(j.get("key")?.as_str()?, 16).ok()?,
            classes: j
                .get("cls")?
                .as_array()?
                .iter()
                .filter_map(|c| c.as_str().map(|s| s.to_string()))
                .collect(),
            rendered: j.get("r")?.as_str()?.to_string(),
            portable: j.get("p").and_then(|p| p.as_str()).map(|s| s.to_string()),
        })
    }
}

/// How a case is addressed; stored in replay files.
#[derive(Clone, Debug)]
pub enum CaseRef {
    Tape(Vec<u32>),
    Fixed(u64),
    Text(String),
}

impl CaseRef {
    pub fn to_json(&self) -> J {
        match self {
            CaseRef::Tape(t) => json!({"kind": "tape", "tape": crate::tape::tape_to_string(t)}),
            CaseRef::Fixed(i) => json!({"kind": "fixed", "index": i}),
            CaseRef::Text(s) => json!({"kind": "text", "text": s}),
        }
    }
    pub fn from_json(j: &J) -> Option<CaseRef> {
        match j.get("kind")?.as_str()? {
            "tape" => Some(CaseRef::Tape(crate::tape::tape_from_string(
                j.get("tape")?.as_str()?,
            ))),
            "fixed" => Some(CaseRef::Fixed(j.get("index")?.as_u64()?)),
            "text" => Some(CaseRef::Text(j.get("text")?.as_str()?.to_string())),
            _ => None,
        }
    }
    pub fn to_line(&self) -> String {
        match self {
            CaseRef::Tape(t) => format!("T {}", crate::tape::tape_to_string(t)),
            CaseRef::Fixed(i) => format!("F {}", i),
            CaseRef::Text(s) => format!("X {}", serde_json::to_string(s).unwrap()),
        }
    }
    pub fn from_line(l: &str) -> Option<CaseRef> {
        let l = l.trim_end_matches('\n');
        if let Some(r) = l.strip_prefix("T ") {
            Some(CaseRef::Tape(crate::tape::tape_from_string(r)))
        } else if l == "T" {
            Some(CaseRef::Tape(vec![]))
        } else if let Some(r) = l.strip_prefix("F ") {
            r.trim().parse().ok().map(CaseRef::Fixed)
        } else if let Some(r) = l.strip_prefix("X ") {
            serde_json::from_str::<String>(r).ok().map(CaseRef::Text)
        } else {
            None
        }
    }
}

pub struct Budget {
    /// generated (tape) cases in total over all shards
    pub cases: u64,
    pub tape_min: usize,
    pub tape_max: usize,
}

pub trait Property {
    fn id(&self) -> &'static str;
    fn level(&self) -> &'static str {
        "exploration"
    }
    /// how cases are generated and what makes one non-trivial / distinct
    fn rule(&self) -> String;
    fn assumptions(&self) -> Vec<String> {
        vec![]
    }
    /// Run cases in a supervised worker sub-process (aborts, stack overflows)
    fn use_worker(&self) -> bool {
        false
    }
    /// shards (threads / workers) to use; CLI-heavy checks may want fewer
    fn shards(&self) -> usize {
        16
    }
    fn budget(&self, tier: Tier) -> Budget;
    /// proptest shrink iterations per failing shard
    fn shrink_iters(&self) -> u32 {
        1500
    }
    /// number of enumerated (index-addressed) cases for this tier
    fn fixed_count(&mut self, _tier: Tier) -> u64 {
        0
    }
    /// true when the fixed cases enumerate a finite sub-space completely
    fn fixed_exhaustive(&self) -> bool {
        false
    }
    fn run_fixed(&mut self, _index: u64) -> Outcome {
        Outcome::discard("no fixed cases", String::new())
    }
    fn run_tape(&mut self, tape: &[u32]) -> Outcome;
    fn run_text(&mut self, _text: &str) -> Outcome {
        Outcome::discard("text replay unsupported", String::new())
    }
    /// minimum per-class percentages below which a run is vacuous (exit 2)
    fn vacuity_floor(&self) -> Vec<(&'static str, f64)> {
        vec![]
    }
    /// extra notes for the evidence file
    fn extra(&self) -> J {
        J::Null
    }

    /// A case may stand for a batch of sub-cases (e.g. many strings handed to one
    /// shell process); each sub-case is one Outcome.
    fn run_tape_batch(&mut self, tape: &[u32]) -> Vec<Outcome> {
        vec![self.run_tape(tape)]
    }
    fn run_fixed_batch(&mut self, index: u64) -> Vec<Outcome> {
        vec![self.run_fixed(index)]
    }

    fn run_case(&mut self, c: &CaseRef) -> Vec<Outcome> {
        match c {
            CaseRef::Tape(t) => self.run_tape_batch(t),
            CaseRef::Fixed(i) => self.run_fixed_batch(*i),
            CaseRef::Text(s) => vec![self.run_text(s)],
        }
    }
}

/// Run `f` catching panics; the panic message and location are returned.
pub fn catch<F: FnOnce() -> R + std::panic::UnwindSafe, R>(f: F) -> Result<R, PanicInfo> {
    LAST_PANIC.with(|p| *p.borrow_mut() = None);
    IN_CATCH.with(|c| c.set(c.get() + 1));
    let res = std::panic::catch_unwind(f);
    IN_CATCH.with(|c| c.set(c.get() - 1));
    match res {
        Ok(r) => Ok(r),
        Err(payload) => {
            let msg = if let Some(s) = payload.downcast_ref::<&str>() {
                s.to_string()
            } else if let Some(s) = payload.downcast_ref::<String>() {
                s.clone()
            } else {
                "<non-string panic>".to_string()
            };
            let loc = LAST_PANIC
                .with(|p| p.borrow_mut().take())
                .unwrap_or_else(|| "<unknown>".to_string());
            Err(PanicInfo { msg, loc })
        }
    }
}

#[derive(Debug, Clone)]
pub struct PanicInfo {
    pub msg: String,
    pub loc: String,
}

impl PanicInfo {
    /// exact signature: location (file:line, path made relative to the repo) + first line
    pub fn sig(&self) -> String {
        let first = self.msg.lines().next().unwrap_or("");
        let mut first: String = first.chars().take(80).collect();
        // numbers in messages vary with the input; the location pins the site
        first = first
            .chars()
            .map(|c| if c.is_ascii_digit() { '#' } else { c })
            .collect();
        format!("panic@{}:{}", self.loc, first)
            .chars()
            .map(|c| if c.is_whitespace() { '_' } else { c })
            .collect()
    }
}

thread_local! {
    static LAST_PANIC: std::cell::RefCell<Option<String>> = std::cell::RefCell::new(None);
    static IN_CATCH: std::cell::Cell<u32> = std::cell::Cell::new(0);
}

pub fn install_panic_hook() {
    std::panic::set_hook(Box::new(|info| {
        let loc = info
            .location()
            .map(|l| {
                let f = l.file();
                let f = f.strip_prefix("/repo/").unwrap_or(f);
                // registry paths: keep crate dir + file
                let f = match f.find("/registry/src/") {
                    Some(i) => {
                        let rest = &f[i + "/registry/src/".len()..];
                        match rest.find('/') {
                            Some(j) => &rest[j + 1..],
                            None => rest,
                        }
                    }
                    None => f,
                };
                format!("{}:{}", f, l.line())
            })
            .unwrap_or_else(|| "<unknown>".to_string());
        if IN_CATCH.with(|c| c.get()) == 0 {
            note(&format!("harness panic at {}: {}", loc, info));
        }
        LAST_PANIC.with(|p| *p.borrow_mut() = Some(loc));
    }));
}

// ------------------------------------------------------------------ stderr
// ucglib prints diagnostics ("Skipping List...", TRACE lines) straight to the
// process's stderr.  The harness keeps the real stderr on a private descriptor
// for its own messages and points fd 2 at /dev/null.
static REAL_STDERR: std::sync::atomic::AtomicI32 = std::sync::atomic::AtomicI32::new(2);

pub fn silence_library_stderr() {
    unsafe {
        let saved = libc::dup(2);
        if saved >= 0 {
            let devnull = libc::open(b"/dev/null\0".as_ptr() as *const libc::c_char, libc::O_WRONLY);
            if devnull >= 0 {
                libc::dup2(devnull, 2);
                libc::close(devnull);
                REAL_STDERR.store(saved, std::sync::atomic::Ordering::SeqCst);
            }
        }
    }
}

pub fn note(msg: &str) {
    let fd = REAL_STDERR.load(std::sync::atomic::Ordering::SeqCst);
    let line = format!("{}\n", msg);
    unsafe {
        libc::write(fd, line.as_ptr() as *const libc::c_void, line.len());
    }
}
