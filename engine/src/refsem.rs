//! Reference interpreter for the generator's AST: a direct tree-walking
//! evaluator of the rules in reference/{expressions,types,statements}.md and
//! the assertions of integration_tests/*.ucg (DESIGN.md Appendix A).  Where the
//! reference is silent the evaluation stops with `Excluded` and the case is
//! counted, not compared.

use crate::prog::*;
use std::rc::Rc;

#[derive(Clone, Debug)]
pub enum V {
    Null,
    Bool(bool),
    Int(i64),
    Float(f64),
    Str(String),
    List(Vec<V>),
    Tuple(Vec<(String, V)>),
    /// the implicit export of a module without out-expression: the reference
    /// does not define the order of its fields
    ModTuple(Vec<(String, V)>),
    Func(Rc<Closure>),
    Module(Rc<ModuleV>),
}

#[derive(Debug)]
pub struct Closure {
    pub params: Vec<String>,
    pub body: E,
    pub env: Env,
}

#[derive(Debug)]
pub struct ModuleV {
    pub params: Vec<(String, V)>,
    pub out: Option<E>,
    pub body: Vec<Stmt>,
    /// the module's fields are ordered by definition for `mod`
    pub unordered_result: bool,
}

#[derive(Clone, Debug, Default)]
pub struct Env {
    vars: Option<Rc<Node>>,
}

#[derive(Debug)]
struct Node {
    name: String,
    val: V,
    next: Option<Rc<Node>>,
}

impl Env {
    pub fn new() -> Env {
        Env { vars: None }
    }
    pub fn bind(&self, name: &str, val: V) -> Env {
        Env { vars: Some(Rc::new(Node { name: name.to_string(), val, next: self.vars.clone() })) }
    }
    pub fn get(&self, name: &str) -> Option<&V> {
        let mut cur = self.vars.as_ref();
        while let Some(n) = cur {
            if n.name == name {
                return Some(&n.val);
            }
            cur = n.next.as_ref();
        }
        None
    }
}

#[derive(Clone, Debug, PartialEq)]
pub enum Stop {
    /// the reference says the build fails here
    Fail(String),
    /// the reference does not define this behaviour
    Excluded(String),
}

type R = Result<V, Stop>;

fn fail<T>(m: impl Into<String>) -> Result<T, Stop> {
    Err(Stop::Fail(m.into()))
}

fn excluded<T>(m: impl Into<String>) -> Result<T, Stop> {
    Err(Stop::Excluded(m.into()))
}

pub fn type_name(v: &V) -> &'static str {
    match v {
        V::Null => "null",
        V::Bool(_) => "bool",
        V::Int(_) => "int",
        V::Float(_) => "float",
        V::Str(_) => "str",
        V::List(_) => "list",
        V::Tuple(_) | V::ModTuple(_) => "tuple",
        V::Func(_) => "func",
        V::Module(_) => "module",
    }
}

/// deep equality (reference: "Comparison operators"); Err = undefined / failing
pub fn has_unordered(v: &V) -> bool {
    match v {
        V::ModTuple(_) => true,
        V::List(l) => l.iter().any(has_unordered),
        V::Tuple(fs) => fs.iter().any(|(_, v)| has_unordered(v)),
        _ => false,
    }
}

pub fn deep_eq(a: &V, b: &V) -> Result<bool, Stop> {
    if has_unordered(a) || has_unordered(b) {
        return excluded("comparison involving a module export whose field order is unspecified");
    }
    match (a, b) {
        (V::Null, V::Null) => Ok(true),
        (V::Null, _) | (_, V::Null) => Ok(false),
        (V::Bool(x), V::Bool(y)) => Ok(x == y),
        (V::Int(x), V::Int(y)) => Ok(x == y),
        (V::Float(x), V::Float(y)) => Ok(x == y),
        (V::Str(x), V::Str(y)) => Ok(x == y),
        (V::List(x), V::List(y)) => {
            if x.len() != y.len() {
                return Ok(false);
            }
            for (p, q) in x.iter().zip(y) {
                // elements of different types are simply unequal inside containers
                if type_name(p) != type_name(q) && !matches!(p, V::Null) && !matches!(q, V::Null) {
                    return Ok(false);
                }
                if !deep_eq(p, q)? {
                    return Ok(false);
                }
            }
            Ok(true)
        }
        (V::Tuple(x), V::Tuple(y)) => {
            if x.len() != y.len() {
                return Ok(false);
            }
            // same names?
            let same_set = x.iter().all(|(k, _)| y.iter().any(|(k2, _)| k == k2));
            if !same_set {
                return Ok(false);
            }
            let same_order = x.iter().zip(y).all(|((k, _), (k2, _))| k == k2);
            for (k, p) in x {
                let q = &y.iter().find(|(k2, _)| k2 == k).unwrap().1;
                if type_name(p) != type_name(q) && !matches!(p, V::Null) && !matches!(q, V::Null) {
                    return Ok(false);
                }
                if !deep_eq(p, q)? {
                    return Ok(false);
                }
            }
            if !same_order {
                // the reference: "both tuples in a comparison must have their fields in
                // the same order to compare as equal"
                return Ok(false);
            }
            Ok(true)
        }
        (V::Func(_), _) | (_, V::Func(_)) | (V::Module(_), _) | (_, V::Module(_)) => excluded("equality of functions or modules"),
        _ => fail("comparison of values of different types"),
    }
}

/// does the comparison involve two tuples with the same fields in a different order?
pub fn permuted_tuples(a: &V, b: &V) -> bool {
    match (a, b) {
        (V::Tuple(x), V::Tuple(y)) => {
            let same_set = x.len() == y.len() && x.iter().all(|(k, _)| y.iter().any(|(k2, _)| k == k2));
            let same_order = x.iter().zip(y).all(|((k, _), (k2, _))| k == k2);
            (same_set && !same_order)
                || (same_set && x.iter().any(|(k, p)| permuted_tuples(p, &y.iter().find(|(k2, _)| k2 == k).unwrap().1)))
        }
        (V::List(x), V::List(y)) => x.len() == y.len() && x.iter().zip(y).any(|(p, q)| permuted_tuples(p, q)),
        _ => false,
    }
}

/// number of nodes of a value, counting stops beyond `cap`
pub fn weight(v: &V, cap: usize) -> usize {
    match v {
        V::List(l) => {
            let mut n = 1;
            for x in l {
                n += weight(x, cap);
                if n > cap {
                    return n;
                }
            }
            n
        }
        V::Tuple(fs) | V::ModTuple(fs) => {
            let mut n = 1;
            for (_, x) in fs {
                n += weight(x, cap);
                if n > cap {
                    return n;
                }
            }
            n
        }
        V::Str(s) => 1 + s.len() / 16,
        _ => 1,
    }
}

pub struct Interp {
    pub steps: u64,
    /// set when an `==`/`!=`/`in` compared tuples that differ only in field order
    pub saw_permuted_eq: bool,
    /// set when `&&`/`||` produced a non-boolean right operand
    pub saw_nonbool_rhs: bool,
    pub trace: Vec<String>,
}

const STEP_LIMIT: u64 = 60_000;
const SIZE_LIMIT: usize = 4096;

fn render_scalar(v: &V) -> Result<String, Stop> {
    match v {
        V::Int(i) => Ok(i.to_string()),
        V::Bool(b) => Ok(b.to_string()),
        V::Null => Ok("NULL".to_string()),
        V::Str(s) => Ok(s.clone()),
        V::Float(f) => {
            // only floats whose shortest decimal form has a fraction and no exponent
            let s = format!("{}", f);
            let dbg = format!("{:?}", f);
            if s.contains('.') && !dbg.contains('e') && f.is_finite() {
                Ok(s)
            } else {
                excluded("rendering of a float without fraction or with exponent")
            }
        }
        _ => excluded("rendering of a composite, function or module in a format string"),
    }
}

impl Interp {
    pub fn new() -> Self {
        Interp { steps: 0, saw_permuted_eq: false, saw_nonbool_rhs: false, trace: vec![] }
    }

    fn tick(&mut self) -> Result<(), Stop> {
        self.steps += 1;
        if self.steps > STEP_LIMIT {
            return excluded("reference step limit");
        }
        Ok(())
    }

    pub fn run(&mut self, stmts: &[Stmt]) -> Result<Vec<(String, V)>, Stop> {
        let mut env = Env::new();
        let mut bound: Vec<(String, V)> = vec![];
        for s in stmts {
            match s {
                Stmt::Let(name, e) => {
                    let v = self.eval(e, &env)?;
                    if bound.iter().any(|(n, _)| n == name) {
                        return fail(format!("rebinding {}", name));
                    }
                    env = env.bind(name, v.clone());
                    bound.push((name.clone(), v));
                }
                Stmt::Expr(e) => {
                    self.eval(e, &env)?;
                }
            }
        }
        Ok(bound)
    }

    fn num_bin(&mut self, op: &Op, l: &V, r: &V) -> R {
        match (op, l, r) {
            (Op::Add, V::Int(a), V::Int(b)) => a.checked_add(*b).map(V::Int).ok_or(Stop::Fail("overflow".into())),
            (Op::Sub, V::Int(a), V::Int(b)) => a.checked_sub(*b).map(V::Int).ok_or(Stop::Fail("overflow".into())),
            (Op::Mul, V::Int(a), V::Int(b)) => a.checked_mul(*b).map(V::Int).ok_or(Stop::Fail("overflow".into())),
            (Op::Div, V::Int(a), V::Int(b)) => {
                if *b == 0 {
                    return fail("division by zero");
                }
                if *a < 0 || *b < 0 {
                    return excluded("integer division with a negative operand");
                }
                Ok(V::Int(a / b))
            }
            (Op::Mod, V::Int(a), V::Int(b)) => {
                if *b == 0 {
                    return fail("modulus by zero");
                }
                if *a < 0 || *b < 0 {
                    return excluded("modulus with a negative operand");
                }
                Ok(V::Int(a % b))
            }
            (Op::Mod, V::Float(_), V::Float(_)) => excluded("float modulus"),
            (Op::Add, V::Float(a), V::Float(b)) => Ok(V::Float(a + b)),
            (Op::Sub, V::Float(a), V::Float(b)) => Ok(V::Float(a - b)),
            (Op::Mul, V::Float(a), V::Float(b)) => Ok(V::Float(a * b)),
            (Op::Div, V::Float(a), V::Float(b)) => Ok(V::Float(a / b)),
            (Op::Add, V::Str(a), V::Str(b)) => {
                if a.len() + b.len() > SIZE_LIMIT {
                    return excluded("value larger than the reference size limit");
                }
                Ok(V::Str(format!("{}{}", a, b)))
            }
            (Op::Add, V::List(a), V::List(b)) => {
                if a.len() + b.len() > SIZE_LIMIT / 8 {
                    return excluded("value larger than the reference size limit");
                }
                let mut v = a.clone();
                v.extend(b.iter().cloned());
                Ok(V::List(v))
            }
            _ => fail(format!("operator {} on {} and {}", op.text(), type_name(l), type_name(r))),
        }
    }

    fn compare(&mut self, op: &Op, l: &V, r: &V) -> R {
        let b = match (l, r) {
            (V::Int(a), V::Int(b)) => match op {
                Op::Gt => a > b,
                Op::Lt => a < b,
                Op::Ge => a >= b,
                _ => a <= b,
            },
            (V::Float(a), V::Float(b)) => match op {
                Op::Gt => a > b,
                Op::Lt => a < b,
                Op::Ge => a >= b,
                _ => a <= b,
            },
            _ => return fail(format!("ordering comparison of {} and {}", type_name(l), type_name(r))),
        };
        Ok(V::Bool(b))
    }

    pub fn eval(&mut self, e: &E, env: &Env) -> R {
        self.tick()?;
        match e {
            E::Null => Ok(V::Null),
            E::Bool(b) => Ok(V::Bool(*b)),
            E::Int(i) => Ok(V::Int(*i)),
            E::Float(f) => Ok(V::Float(*f)),
            E::Str(s) => Ok(V::Str(s.clone())),
            E::Sym(s) => match env.get(s) {
                Some(v) => Ok(v.clone()),
                None => fail(format!("no such binding {}", s)),
            },
            E::List(l) => {
                let mut out = vec![];
                let mut w = 0;
                for x in l {
                    let v = self.eval(x, env)?;
                    w += weight(&v, SIZE_LIMIT);
                    if w > SIZE_LIMIT {
                        return excluded("value larger than the reference size limit");
                    }
                    out.push(v);
                }
                Ok(V::List(out))
            }
            E::Tuple(fs) => {
                let mut out: Vec<(String, V)> = vec![];
                for (k, x) in fs {
                    let v = self.eval(x, env)?;
                    if out.iter().any(|(k2, _)| k2 == k) {
                        return excluded("duplicate field name in a tuple literal");
                    }
                    if weight(&v, SIZE_LIMIT) > SIZE_LIMIT {
                        return excluded("value larger than the reference size limit");
                    }
                    out.push((k.clone(), v));
                }
                Ok(V::Tuple(out))
            }
            E::Not(x) => match self.eval(x, env)? {
                V::Bool(b) => Ok(V::Bool(!b)),
                other => fail(format!("not of {}", type_name(&other))),
            },
            E::Bin(op, l, r) => self.bin(op, l, r, env),
            E::Field(base, sel) => {
                let b = self.eval(base, env)?;
                let key = match sel {
                    Sel::Name(n) | Sel::Quoted(n) => V::Str(n.clone()),
                    Sel::Index(i) => V::Int(*i),
                    Sel::Expr(x) => self.eval(x, env)?,
                };
                match (&b, &key) {
                    (V::Tuple(fs), V::Str(k)) | (V::ModTuple(fs), V::Str(k)) => match fs.iter().find(|(n, _)| n == k) {
                        Some((_, v)) => Ok(v.clone()),
                        None => fail(format!("no field {}", k)),
                    },
                    (V::List(l), V::Int(i)) => {
                        if *i >= 0 && (*i as usize) < l.len() {
                            Ok(l[*i as usize].clone())
                        } else {
                            fail(format!("index {} out of range", i))
                        }
                    }
                    (V::Module(_), _) | (V::Func(_), _) => excluded("selector on a function or module"),
                    _ => fail(format!("selector {:?} on {}", key, type_name(&b))),
                }
            }
            E::Select { val, default, arms } => {
                let v = self.eval(val, env)?;
                let name = match &v {
                    V::Str(s) => s.clone(),
                    V::Bool(b) => b.to_string(),
                    _ => return excluded("select on a value that is neither string nor boolean"),
                };
                // duplicate arm names: undefined which one counts
                for (i, (k, _)) in arms.iter().enumerate() {
                    if arms[..i].iter().any(|(k2, _)| k2 == k) {
                        return excluded("duplicate select arm");
                    }
                }
                // a boolean selects only the arms literally named true / false; a string
                // equal to "true" naming the `true` arm is what the reference describes too
                match arms.iter().find(|(k, _)| *k == name) {
                    Some((_, x)) => self.eval(x, env),
                    None => match default {
                        Some(d) => self.eval(d, env),
                        None => fail("unhandled select case"),
                    },
                }
            }
            E::Func { params, body } => {
                for (i, p) in params.iter().enumerate() {
                    if params[..i].contains(p) {
                        return excluded("duplicate parameter name");
                    }
                }
                Ok(V::Func(Rc::new(Closure { params: params.clone(), body: (**body).clone(), env: env.clone() })))
            }
            E::Call { callee, args } => {
                let f = match callee {
                    Callee::Name(n) => match env.get(n) {
                        Some(v) => v.clone(),
                        None => return fail(format!("no such binding {}", n)),
                    },
                    Callee::Field(t, fld) => match env.get(t) {
                        Some(V::Tuple(fs)) => match fs.iter().find(|(n, _)| n == fld) {
                            Some((_, v)) => v.clone(),
                            None => return fail("no such field"),
                        },
                        Some(_) => return fail("call through a non-tuple"),
                        None => return fail(format!("no such binding {}", t)),
                    },
                };
                let mut vals = vec![];
                for a in args {
                    vals.push(self.eval(a, env)?);
                }
                match f {
                    V::Func(c) => self.call(&c, vals),
                    _ => fail("call of a non-function"),
                }
            }
            E::Copy { base, path, fields } => {
                let mut b = match env.get(base) {
                    Some(v) => v.clone(),
                    None => return fail(format!("no such binding {}", base)),
                };
                for seg in path {
                    b = match &b {
                        V::Tuple(fs) | V::ModTuple(fs) => match fs.iter().find(|(n, _)| n == seg) {
                            Some((_, v)) => v.clone(),
                            None => return fail(format!("no field {}", seg)),
                        },
                        _ => return fail("selector on a non-tuple in a copy base"),
                    };
                }
                match b {
                    V::Tuple(base_fs) => {
                        // `self` is the base tuple inside the copy body
                        let inner = env.bind("self", V::Tuple(base_fs.clone()));
                        let mut out = base_fs.clone();
                        let mut seen: Vec<&String> = vec![];
                        for (k, x) in fields {
                            if seen.contains(&k) {
                                return excluded("duplicate field in a copy body");
                            }
                            seen.push(k);
                            let v = self.eval(x, &inner)?;
                            match out.iter_mut().find(|(n, _)| n == k) {
                                Some((_, slot)) => {
                                    if type_name(slot) != type_name(&v) && !matches!(slot, V::Null) && !matches!(v, V::Null) {
                                        return fail(format!("copy changes the type of field {}", k));
                                    }
                                    *slot = v;
                                }
                                None => out.push((k.clone(), v)),
                            }
                        }
                        Ok(V::Tuple(out))
                    }
                    V::Module(m) => self.instantiate(&m, fields, env),
                    V::ModTuple(_) => excluded("copy of a module export whose field order is unspecified"),
                    _ => fail("copy of a value that is neither tuple nor module"),
                }
            }
            E::Module { params, out, body } => {
                let mut ps = vec![];
                for (k, x) in params {
                    if ps.iter().any(|(k2, _): &(String, V)| k2 == k) {
                        return excluded("duplicate module parameter");
                    }
                    ps.push((k.clone(), self.eval(x, env)?));
                }
                Ok(V::Module(Rc::new(ModuleV { params: ps, out: out.as_ref().map(|o| (**o).clone()), body: body.clone(), unordered_result: out.is_none() })))
            }
            E::Map(f, t) => {
                let fv = self.eval(f, env)?;
                let tv = self.eval(t, env)?;
                let c = match fv {
                    V::Func(c) => c,
                    _ => return fail("map with a non-function"),
                };
                match tv {
                    V::List(l) => {
                        if c.params.len() != 1 {
                            return fail("map over a list needs a function of one argument");
                        }
                        let mut out = vec![];
                        for x in l {
                            out.push(self.call(&c, vec![x])?);
                        }
                        Ok(V::List(out))
                    }
                    V::Tuple(fs) => {
                        if c.params.len() != 2 {
                            return fail("map over a tuple needs a function of two arguments");
                        }
                        let mut out: Vec<(String, V)> = vec![];
                        for (k, v) in fs {
                            let r = self.call(&c, vec![V::Str(k), v])?;
                            match r {
                                V::List(pair) if pair.len() == 2 => match &pair[0] {
                                    V::Str(n) => {
                                        if out.iter().any(|(k2, _)| k2 == n) {
                                            return excluded("map over a tuple producing duplicate names");
                                        }
                                        out.push((n.clone(), pair[1].clone()));
                                    }
                                    _ => return excluded("map over a tuple: callback result without a string name"),
                                },
                                _ => return excluded("map over a tuple: callback result is not a two item list"),
                            }
                        }
                        Ok(V::Tuple(out))
                    }
                    V::Str(s) => {
                        if c.params.len() != 1 {
                            return fail("map over a string needs a function of one argument");
                        }
                        if !s.is_ascii() {
                            return excluded("functional operator over a non-ASCII string");
                        }
                        let mut out = String::new();
                        for ch in s.chars() {
                            match self.call(&c, vec![V::Str(ch.to_string())])? {
                                V::Str(p) => {
                                    if out.len() + p.len() > SIZE_LIMIT {
                                        return excluded("value larger than the reference size limit");
                                    }
                                    out.push_str(&p)
                                }
                                _ => return excluded("map over a string: callback result is not a string"),
                            }
                        }
                        Ok(V::Str(out))
                    }
                    V::ModTuple(_) => excluded("iteration over a module export whose field order is unspecified"),
                    _ => fail("map over a value that is not a list, tuple or string"),
                }
            }
            E::Filter(f, t) => {
                let fv = self.eval(f, env)?;
                let tv = self.eval(t, env)?;
                let c = match fv {
                    V::Func(c) => c,
                    _ => return fail("filter with a non-function"),
                };
                let keep = |r: &V| !matches!(r, V::Null | V::Bool(false));
                match tv {
                    V::List(l) => {
                        if c.params.len() != 1 {
                            return fail("filter over a list needs a function of one argument");
                        }
                        let mut out = vec![];
                        for x in l {
                            let r = self.call(&c, vec![x.clone()])?;
                            if keep(&r) {
                                out.push(x);
                            }
                        }
                        Ok(V::List(out))
                    }
                    V::Tuple(fs) => {
                        if c.params.len() != 2 {
                            return fail("filter over a tuple needs a function of two arguments");
                        }
                        let mut out = vec![];
                        for (k, v) in fs {
                            let r = self.call(&c, vec![V::Str(k.clone()), v.clone()])?;
                            if keep(&r) {
                                out.push((k, v));
                            }
                        }
                        Ok(V::Tuple(out))
                    }
                    V::Str(s) => {
                        if c.params.len() != 1 {
                            return fail("filter over a string needs a function of one argument");
                        }
                        if !s.is_ascii() {
                            return excluded("functional operator over a non-ASCII string");
                        }
                        let mut out = String::new();
                        for ch in s.chars() {
                            let r = self.call(&c, vec![V::Str(ch.to_string())])?;
                            if keep(&r) {
                                out.push(ch);
                            }
                        }
                        Ok(V::Str(out))
                    }
                    V::ModTuple(_) => excluded("iteration over a module export whose field order is unspecified"),
                    _ => fail("filter over a value that is not a list, tuple or string"),
                }
            }
            E::Reduce(f, a, t) => {
                let fv = self.eval(f, env)?;
                let mut acc = self.eval(a, env)?;
                let tv = self.eval(t, env)?;
                let c = match fv {
                    V::Func(c) => c,
                    _ => return fail("reduce with a non-function"),
                };
                match tv {
                    V::List(l) => {
                        if c.params.len() != 2 {
                            return fail("reduce over a list needs a function of two arguments");
                        }
                        for x in l {
                            acc = self.call(&c, vec![acc, x])?;
                        }
                        Ok(acc)
                    }
                    V::Tuple(fs) => {
                        if c.params.len() != 3 {
                            return fail("reduce over a tuple needs a function of three arguments");
                        }
                        for (k, v) in fs {
                            acc = self.call(&c, vec![acc, V::Str(k), v])?;
                        }
                        Ok(acc)
                    }
                    V::Str(s) => {
                        if c.params.len() != 2 {
                            return fail("reduce over a string needs a function of two arguments");
                        }
                        if !s.is_ascii() {
                            return excluded("functional operator over a non-ASCII string");
                        }
                        for ch in s.chars() {
                            acc = self.call(&c, vec![acc, V::Str(ch.to_string())])?;
                        }
                        Ok(acc)
                    }
                    V::ModTuple(_) => excluded("iteration over a module export whose field order is unspecified"),
                    _ => fail("reduce over a value that is not a list, tuple or string"),
                }
            }
            E::FormatList(pieces, args) => {
                let mut vals = vec![];
                for a in args {
                    vals.push(self.eval(a, env)?);
                }
                let holes = pieces.len() - 1;
                if vals.len() != holes {
                    return fail("format placeholders and arguments differ in number");
                }
                let mut out = String::new();
                for (i, p) in pieces.iter().enumerate() {
                    out.push_str(p);
                    if i < holes {
                        out.push_str(&render_scalar(&vals[i])?);
                    }
                    if out.len() > SIZE_LIMIT {
                        return excluded("value larger than the reference size limit");
                    }
                }
                Ok(V::Str(out))
            }
            E::FormatExpr(parts, arg) => {
                let a = self.eval(arg, env)?;
                let inner = env.bind("item", a);
                let mut out = String::new();
                for p in parts {
                    match p {
                        Part::Lit(s) => out.push_str(s),
                        Part::Expr(x) => {
                            let v = self.eval(x, &inner)?;
                            out.push_str(&render_scalar(&v)?);
                            if out.len() > SIZE_LIMIT {
                                return excluded("value larger than the reference size limit");
                            }
                        }
                    }
                }
                Ok(V::Str(out))
            }
            E::Range(a, s, b) => {
                let av = self.eval(a, env)?;
                let sv = match s {
                    Some(s) => Some(self.eval(s, env)?),
                    None => None,
                };
                let bv = self.eval(b, env)?;
                match (av, sv, bv) {
                    (V::Int(a), step, V::Int(b)) => {
                        let step = match step {
                            None => 1,
                            Some(V::Int(s)) => s,
                            Some(V::Null) => return excluded("NULL range step"),
                            Some(_) => return fail("range step is not an int"),
                        };
                        if step < 1 {
                            return fail("range step must be positive");
                        }
                        let mut out = vec![];
                        let mut n = a;
                        while n <= b {
                            out.push(V::Int(n));
                            if out.len() > 10_000 {
                                return excluded("range longer than 10^4");
                            }
                            n = match n.checked_add(step) {
                                Some(x) => x,
                                None => break,
                            };
                        }
                        Ok(V::List(out))
                    }
                    _ => fail("range bounds are not ints"),
                }
            }
            E::Cast(t, x) => {
                let v = self.eval(x, env)?;
                match (t.as_str(), &v) {
                    ("int", V::Int(i)) => Ok(V::Int(*i)),
                    ("int", V::Str(s)) => match s.parse::<i64>() {
                        Ok(i) if s.bytes().all(|b| b.is_ascii_digit()) => Ok(V::Int(i)),
                        Ok(_) => excluded("int cast of a signed or padded numeral"),
                        Err(_) => {
                            if s.bytes().all(|b| b.is_ascii_digit() || b == b'-' || b == b'+') && !s.is_empty() {
                                excluded("int cast of an unusual numeral")
                            } else {
                                fail("int cast of a non-numeric string")
                            }
                        }
                    },
                    ("int", V::Float(f)) => {
                        if f.is_finite() && f.abs() < 9.0e15 && *f >= 0.0 {
                            Ok(V::Int(f.trunc() as i64))
                        } else {
                            excluded("int cast of a negative, huge or non-finite float")
                        }
                    }
                    ("float", V::Float(f)) => Ok(V::Float(*f)),
                    ("float", V::Int(i)) => {
                        if i.unsigned_abs() <= (1u64 << 53) {
                            Ok(V::Float(*i as f64))
                        } else {
                            excluded("float cast of an integer beyond 2^53")
                        }
                    }
                    ("float", V::Str(s)) => {
                        let plain = !s.is_empty() && s.bytes().all(|b| b.is_ascii_digit() || b == b'.') && s.bytes().filter(|b| *b == b'.').count() <= 1 && s != ".";
                        match s.parse::<f64>() {
                            Ok(f) if plain => Ok(V::Float(f)),
                            Ok(_) => excluded("float cast of an unusual numeral"),
                            Err(_) => {
                                if s.chars().any(|c| c.is_ascii_digit()) {
                                    excluded("float cast of an unusual numeral")
                                } else {
                                    fail("float cast of a non-numeric string")
                                }
                            }
                        }
                    }
                    ("str", V::Int(i)) => Ok(V::Str(i.to_string())),
                    ("str", V::Bool(b)) => Ok(V::Str(b.to_string())),
                    ("str", V::Float(_)) => Ok(V::Str(render_scalar(&v)?)),
                    ("bool", V::Bool(b)) => Ok(V::Bool(*b)),
                    ("bool", V::Str(s)) if s == "true" => Ok(V::Bool(true)),
                    ("bool", V::Str(s)) if s == "false" => Ok(V::Bool(false)),
                    (_, V::List(_)) | (_, V::Tuple(_)) | (_, V::Func(_)) | (_, V::Module(_)) => fail("cast of a composite"),
                    _ => excluded(format!("cast {}({}) outside the tested matrix", t, type_name(&v))),
                }
            }
            E::Fail(x) => {
                // the message is evaluated first; whatever it is, the build fails
                let m = self.eval(x, env)?;
                fail(format!("fail: {:?}", m))
            }
            E::Trace(x) => self.eval(x, env),
        }
    }

    fn bin(&mut self, op: &Op, l: &E, r: &E, env: &Env) -> R {
        match op {
            Op::And | Op::Or => {
                let lv = self.eval(l, env)?;
                let lb = match lv {
                    V::Bool(b) => b,
                    other => return fail(format!("{} on a non-boolean left operand {}", op.text(), type_name(&other))),
                };
                if (*op == Op::And && !lb) || (*op == Op::Or && lb) {
                    return Ok(V::Bool(lb));
                }
                let rv = self.eval(r, env)?;
                match rv {
                    V::Bool(b) => Ok(V::Bool(b)),
                    other => {
                        self.saw_nonbool_rhs = true;
                        fail(format!("{} on a non-boolean right operand {}", op.text(), type_name(&other)))
                    }
                }
            }
            Op::Is => {
                let lv = self.eval(l, env)?;
                let rv = self.eval(r, env)?;
                match rv {
                    V::Str(t) => {
                        let known = ["null", "str", "int", "float", "bool", "tuple", "list", "func", "module"];
                        if !known.contains(&t.as_str()) {
                            return excluded("is with an unknown type name");
                        }
                        Ok(V::Bool(type_name(&lv) == t))
                    }
                    _ => excluded("is with a non-string right operand"),
                }
            }
            Op::In => {
                let rv = self.eval(r, env)?;
                // "foo in tpl": a bareword on the left names a field when the right is a tuple
                if let (E::Sym(name), V::Tuple(fs) | V::ModTuple(fs)) = (l, &rv) {
                    return Ok(V::Bool(fs.iter().any(|(k, _)| k == name)));
                }
                let lv = self.eval(l, env)?;
                match (&lv, &rv) {
                    (V::Str(name), V::Tuple(fs)) | (V::Str(name), V::ModTuple(fs)) => Ok(V::Bool(fs.iter().any(|(k, _)| k == name))),
                    (_, V::Tuple(_)) | (_, V::ModTuple(_)) => fail("in: field test with a non-string name"),
                    (x, V::List(items)) => {
                        for it in items {
                            if permuted_tuples(x, it) {
                                self.saw_permuted_eq = true;
                            }
                            let same_type = type_name(x) == type_name(it);
                            if matches!(x, V::Func(_) | V::Module(_)) || matches!(it, V::Func(_) | V::Module(_)) {
                                return excluded("membership test involving functions or modules");
                            }
                            if same_type && deep_eq(x, it)? {
                                return Ok(V::Bool(true));
                            }
                        }
                        Ok(V::Bool(false))
                    }
                    (_, V::Str(_)) => excluded("in with a string on the right"),
                    _ => excluded("in on a value that is neither tuple nor list"),
                }
            }
            Op::ReMatch | Op::ReNotMatch => {
                let lv = self.eval(l, env)?;
                let rv = self.eval(r, env)?;
                match (&lv, &rv) {
                    (V::Str(s), V::Str(re)) => {
                        // only literal patterns (no metacharacters) are modelled: substring search
                        if re.chars().all(|c| c.is_ascii_alphanumeric() || c == ' ') {
                            let m = s.contains(re.as_str());
                            Ok(V::Bool(if *op == Op::ReMatch { m } else { !m }))
                        } else {
                            excluded("regular expression with metacharacters")
                        }
                    }
                    _ => fail("regex match on non-strings"),
                }
            }
            Op::Eq | Op::Ne => {
                let lv = self.eval(l, env)?;
                let rv = self.eval(r, env)?;
                if permuted_tuples(&lv, &rv) {
                    self.saw_permuted_eq = true;
                }
                let same = type_name(&lv) == type_name(&rv) || matches!(lv, V::Null) || matches!(rv, V::Null);
                if matches!(lv, V::Func(_) | V::Module(_)) || matches!(rv, V::Func(_) | V::Module(_)) {
                    return excluded("equality of functions or modules");
                }
                if !same {
                    return fail("equality of values of different types");
                }
                let e = deep_eq(&lv, &rv)?;
                Ok(V::Bool(if *op == Op::Eq { e } else { !e }))
            }
            Op::Gt | Op::Lt | Op::Ge | Op::Le => {
                let lv = self.eval(l, env)?;
                let rv = self.eval(r, env)?;
                self.compare(op, &lv, &rv)
            }
            _ => {
                let lv = self.eval(l, env)?;
                let rv = self.eval(r, env)?;
                self.num_bin(op, &lv, &rv)
            }
        }
    }

    fn call(&mut self, c: &Closure, args: Vec<V>) -> R {
        self.tick()?;
        if args.len() != c.params.len() {
            return fail("function called with the wrong number of arguments");
        }
        let mut env = c.env.clone();
        for (p, a) in c.params.iter().zip(args) {
            env = env.bind(p, a);
        }
        self.eval(&c.body, &env)
    }

    fn instantiate(&mut self, m: &ModuleV, overrides: &[(String, E)], env: &Env) -> R {
        self.tick()?;
        // overrides are evaluated in the instantiating scope (`self` is not defined for modules)
        let mut params = m.params.clone();
        let mut seen: Vec<&String> = vec![];
        for (k, x) in overrides {
            if seen.contains(&k) {
                return excluded("duplicate field in a module instantiation");
            }
            seen.push(k);
            if k == "this" || k == "pkg" {
                return excluded("override of a module builtin binding");
            }
            let v = self.eval(x, env)?;
            match params.iter_mut().find(|(n, _)| n == k) {
                Some((_, slot)) => {
                    if type_name(slot) != type_name(&v) && !matches!(slot, V::Null) && !matches!(v, V::Null) {
                        return fail(format!("module parameter {} changes type", k));
                    }
                    *slot = v;
                }
                None => params.push((k.clone(), v)),
            }
        }
        // the body sees only `mod`
        let menv = Env::new().bind("mod", V::Tuple(params));
        let mut cur = menv;
        let mut bound: Vec<(String, V)> = vec![];
        for s in &m.body {
            match s {
                Stmt::Let(name, e) => {
                    let v = self.eval(e, &cur)?;
                    if bound.iter().any(|(n, _)| n == name) || name == "mod" {
                        return fail("rebinding inside a module");
                    }
                    cur = cur.bind(name, v.clone());
                    bound.push((name.clone(), v));
                }
                Stmt::Expr(e) => {
                    self.eval(e, &cur)?;
                }
            }
        }
        match &m.out {
            Some(o) => self.eval(o, &cur),
            None => Ok(V::ModTuple(bound)),
        }
    }
}
