//! In-process driver for ucglib: one warm `Environment` per property
//! instance, reset before every case (Environment::new parses the embedded
//! stdlib and is expensive).

use std::cell::RefCell;
use std::collections::BTreeMap;
use std::io::Write;
use std::path::{Path, PathBuf};
use std::rc::Rc;
use ucglib::build::opcode::Environment;
use ucglib::build::{AssertCollector, FileBuilder, Val};

#[derive(Clone, Default)]
pub struct SharedBuf(pub Rc<RefCell<Vec<u8>>>);

impl Write for SharedBuf {
    fn write(&mut self, buf: &[u8]) -> std::io::Result<usize> {
        self.0.borrow_mut().extend_from_slice(buf);
        Ok(buf.len())
    }
    fn flush(&mut self) -> std::io::Result<()> {
        Ok(())
    }
}

impl SharedBuf {
    pub fn take(&self) -> String {
        let v = std::mem::take(&mut *self.0.borrow_mut());
        String::from_utf8_lossy(&v).into_owned()
    }
    pub fn clear(&self) {
        self.0.borrow_mut().clear();
    }
}

pub struct Ucg {
    env: Option<RefCell<Environment<SharedBuf, SharedBuf>>>,
    pub out: SharedBuf,
    pub err: SharedBuf,
    vars: BTreeMap<Rc<str>, Rc<str>>,
    uses: u32,
    ipaths: Vec<PathBuf>,
    pub scratch: PathBuf,
    file_counter: u64,
}

static SCRATCH_SEQ: std::sync::atomic::AtomicU64 = std::sync::atomic::AtomicU64::new(0);

pub fn scratch_root() -> PathBuf {
    let base = std::env::var("VERIF_SCRATCH")
        .map(PathBuf::from)
        .unwrap_or_else(|_| std::env::temp_dir());
    base.join(format!("ucgverif-{}", std::process::id()))
}

pub fn new_scratch_dir(tag: &str) -> PathBuf {
    let n = SCRATCH_SEQ.fetch_add(1, std::sync::atomic::Ordering::Relaxed);
    let d = scratch_root().join(format!("{}-{}", tag, n));
    let _ = std::fs::create_dir_all(&d);
    d
}

impl Drop for Ucg {
    fn drop(&mut self) {
        let _ = std::fs::remove_dir_all(&self.scratch);
    }
}

impl Ucg {
    pub fn new() -> Self {
        Self::with_vars(BTreeMap::new())
    }

    pub fn with_vars(vars: BTreeMap<Rc<str>, Rc<str>>) -> Self {
        Ucg {
            env: None,
            out: SharedBuf::default(),
            err: SharedBuf::default(),
            vars,
            uses: 0,
            ipaths: vec![],
            scratch: new_scratch_dir("ucg"),
            file_counter: 0,
        }
    }

    /// Fresh per-case state on a warm environment.
    pub fn reset(&mut self) {
        self.out.clear();
        self.err.clear();
        self.uses += 1;
        // the per-path op cache cannot be cleared from outside: start over now and then
        let mut rebuild = self.env.is_none() || self.uses % 1500 == 0;
        if !rebuild {
            let env = self.env.as_ref().unwrap();
            let ok = match env.try_borrow_mut() {
                Ok(mut e) => {
                    e.val_cache.clear();
                    e.out_lock.clear();
                    e.assert_results = AssertCollector::new();
                    // shapes of std files stay, everything else goes
                    e.shape_cache
                        .borrow_mut()
                        .retain(|p, _| p.to_string_lossy().starts_with("std/"));
                    true
                }
                // a panic left the cell borrowed: rebuild
                Err(_) => false,
            };
            rebuild = !ok;
        }
        if rebuild {
            self.env = Some(RefCell::new(Environment::new_with_vars(
                self.out.clone(),
                self.err.clone(),
                self.vars.clone(),
            )));
        }
    }

    pub fn poison(&mut self) {
        // after a caught panic nothing about the environment is trusted
        self.env = None;
    }

    pub fn env(&self) -> &RefCell<Environment<SharedBuf, SharedBuf>> {
        self.env.as_ref().expect("reset() first")
    }

    /// Evaluate a string the way `ucg eval`/the test-suite does (no static checker).
    pub fn eval(&self, src: &str, strict: bool) -> Result<Rc<Val>, String> {
        let mut b = FileBuilder::new(&self.scratch, &self.ipaths, self.env());
        b.set_strict(strict);
        b.eval_string(src).map_err(|e| format!("{}", e))
    }

    pub fn eval_validate(&self, src: &str, strict: bool) -> Result<Rc<Val>, String> {
        let mut b = FileBuilder::new(&self.scratch, &self.ipaths, self.env());
        b.set_strict(strict);
        b.enable_validate_mode();
        b.eval_string(src).map_err(|e| format!("{}", e))
    }

    /// A unique file path inside the scratch directory.
    pub fn fresh_path(&mut self, stem: &str, ext: &str) -> PathBuf {
        self.file_counter += 1;
        let d = self.scratch.join(format!("c{}", self.file_counter));
        let _ = std::fs::create_dir_all(&d);
        d.join(format!("{}.{}", stem, ext))
    }

    pub fn cleanup_case_dir(&self, file: &Path) {
        if let Some(d) = file.parent() {
            if d.starts_with(&self.scratch) && d != self.scratch {
                let _ = std::fs::remove_dir_all(d);
            }
        }
    }

    /// Build a file the way `ucg build` does (static checker + VM); returns the
    /// tuple of top-level bindings.
    pub fn build(&self, file: &Path, strict: bool) -> Result<Rc<Val>, String> {
        let mut b = FileBuilder::new(file.parent().unwrap(), &self.ipaths, self.env());
        b.set_strict(strict);
        match b.build(file) {
            Ok(()) => Ok(b.out.clone().unwrap_or_else(|| Rc::new(Val::Empty))),
            Err(e) => Err(format!("{}", e)),
        }
    }

    /// Write `src` to a fresh file and build it.
    pub fn build_src(&mut self, src: &str, strict: bool) -> (PathBuf, Result<Rc<Val>, String>) {
        let p = self.fresh_path("main", "ucg");
        std::fs::write(&p, src).expect("write scratch file");
        let r = self.build(&p, strict);
        (p, r)
    }
}

/// Render a Val compactly and unambiguously (floats by bits).
pub fn show_val(v: &Val) -> String {
    match v {
        Val::Empty => "NULL".into(),
        Val::Boolean(b) => format!("{}", b),
        Val::Int(i) => format!("{}", i),
        Val::Float(f) => format!("{:?}f", f),
        Val::Str(s) => format!("{:?}", s),
        Val::List(l) => format!(
            "[{}]",
            l.iter().map(|e| show_val(e)).collect::<Vec<_>>().join(", ")
        ),
        Val::Tuple(t) => format!(
            "{{{}}}",
            t.iter()
                .map(|(k, v)| format!("{:?} = {}", k, show_val(v)))
                .collect::<Vec<_>>()
                .join(", ")
        ),
        Val::Env(t) => format!("env{:?}", t),
        Val::Constraint(c) => format!("<constraint {:?}>", c),
    }
}
