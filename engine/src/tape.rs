//! Choice tape: every structured generator is a decoder of a `Vec<u32>` that
//! proptest supplies and shrinks.  Draws map monotonically (a smaller word
//! gives an earlier alternative) and an exhausted tape yields zeros, so a
//! shrunk tape decodes to a simpler case.

pub struct Tape<'a> {
    words: &'a [u32],
    pos: usize,
}

impl<'a> Tape<'a> {
    pub fn new(words: &'a [u32]) -> Self {
        Tape { words, pos: 0 }
    }

    pub fn raw(&mut self) -> u32 {
        let w = self.words.get(self.pos).copied().unwrap_or(0);
        self.pos += 1;
        w
    }

    pub fn consumed(&self) -> usize {
        self.pos
    }

    pub fn exhausted(&self) -> bool {
        self.pos >= self.words.len()
    }

    /// Uniform-ish choice in 0..n, monotone in the drawn word.
    pub fn choice(&mut self, n: usize) -> usize {
        if n <= 1 {
            // still consume nothing: a fixed decision needs no entropy
            return 0;
        }
        let w = self.raw() as u64;
        ((w * n as u64) >> 32) as usize
    }

    /// Inclusive integer range.
    pub fn range(&mut self, lo: i64, hi: i64) -> i64 {
        debug_assert!(lo <= hi);
        let span = (hi - lo) as u64 + 1;
        let w = self.raw() as u64;
        lo + ((w as u128 * span as u128) >> 32) as i64
    }

    /// True with probability num/den; `false` is the simple alternative.
    pub fn chance(&mut self, num: u32, den: u32) -> bool {
        let w = self.raw() as u64;
        // top `num/den` of the word space gives true, so zeros give false
        w * (den as u64) >= ((den - num) as u64) << 32
    }

    pub fn pick<'b, T>(&mut self, items: &'b [T]) -> &'b T {
        &items[self.choice(items.len())]
    }

    /// Weighted choice; weights[i] is the relative weight of alternative i.
    pub fn weighted(&mut self, weights: &[u32]) -> usize {
        let total: u64 = weights.iter().map(|w| *w as u64).sum();
        if total == 0 {
            return 0;
        }
        let w = self.raw() as u64;
        let mut x = (w * total) >> 32;
        for (i, wt) in weights.iter().enumerate() {
            if x < *wt as u64 {
                return i;
            }
            x -= *wt as u64;
        }
        weights.len() - 1
    }

    pub fn u64(&mut self) -> u64 {
        ((self.raw() as u64) << 32) | self.raw() as u64
    }
}

pub fn tape_to_string(words: &[u32]) -> String {
    let mut s = String::with_capacity(words.len() * 9);
    for (i, w) in words.iter().enumerate() {
        if i > 0 {
            s.push(',');
        }
        s.push_str(&format!("{:x}", w));
    }
    s
}

pub fn tape_from_string(s: &str) -> Vec<u32> {
    s.trim()
        .split(',')
        .filter(|p| !p.is_empty())
        .map(|p| u32::from_str_radix(p, 16).unwrap_or(0))
        .collect()
}

/// FNV-1a, used for case keys (never std's randomised hasher).
pub fn fnv(data: &[u8]) -> u64 {
    let mut h: u64 = 0xcbf29ce484222325;
    for b in data {
        h ^= *b as u64;
        h = h.wrapping_mul(0x100000001b3);
    }
    h
}

/// Bytes (libFuzzer input) to tape words.
pub fn bytes_to_tape(data: &[u8]) -> Vec<u32> {
    data.chunks(4)
        .map(|c| {
            let mut b = [0u8; 4];
            b[..c.len()].copy_from_slice(c);
            u32::from_le_bytes(b)
        })
        .collect()
}
