//! C14 — `out` writes one artifact: right name, same bytes as `convert`, all or nothing.
//!
//! Oracle: the relation the property states — the artifact equals the string
//! `convert <fmt> <value>` evaluates to; directory listing and bytes before /
//! after; failed conversions enumerated per converter x pre-existing artifact.

use crate::cli;
use crate::core::*;
use crate::gval::{gen_val, GVal, GenOpts};
use crate::tape::{fnv, Tape};
use crate::ucgrun::Ucg;
use std::collections::BTreeMap;
use std::path::{Path, PathBuf};
use ucglib::build::Val;

pub struct C14 {
    ucg: Ucg,
    home: PathBuf,
}

/// converter -> extension, from reference/converters.md (not from the code)
const CONVERTERS: [(&str, &str); 8] = [
    ("json", "json"),
    ("yaml", "yaml"),
    ("yamlmulti", "yaml"),
    ("toml", "toml"),
    ("xml", "xml"),
    ("env", "env"),
    ("flags", "txt"),
    ("exec", "sh"),
];

#[derive(Clone, Debug, PartialEq)]
enum Pre {
    None,
    /// artifact left by an earlier successful build of a different value
    Earlier,
    Foreign,
}

fn snapshot(dir: &Path) -> BTreeMap<String, Vec<u8>> {
    let mut m = BTreeMap::new();
    for f in cli::list_files(dir) {
        if let Ok(b) = std::fs::read(dir.join(&f)) {
            m.insert(f.to_string_lossy().into_owned(), b);
        }
    }
    m
}

/// A value expression (source text) for the converter: mostly convertible, sometimes not.
fn gen_value_expr(conv: &str, t: &mut Tape) -> (String, bool) {
    // returns (expression, deliberately unconvertible)
    let opts = GenOpts { constraint: false, nonfinite: false, max_depth: 3, ..GenOpts::default() };
    let bad = t.chance(1, 4);
    let lit = |v: GVal| v.to_ucg().unwrap_or_else(|| "{}".to_string());
    match conv {
        "json" | "yaml" | "yamlmulti" => {
            if bad {
                let e = *t.pick(&["{a = 1.0 / 0.0}", "[0.0 / 0.0]", "{x = c}", "1.0 / 0.0", "{a = {b = [1, (0.0 - 1.0) / 0.0]}}"]);
                (e.to_string(), true)
            } else {
                (lit(gen_val(t, &opts, 0)), false)
            }
        }
        "toml" => {
            if bad {
                let e = *t.pick(&["{a = NULL}", "5", "\"s\"", "[1, 2]", "{a = [1, {b = 1}]}", "{a = {b = NULL}}", "NULL", "{x = c}", "{a = [NULL]}"]);
                (e.to_string(), true)
            } else {
                let o2 = GenOpts { null: false, ..opts };
                let n = t.choice(4);
                let mut fs: Vec<(String, GVal)> = vec![];
                for _ in 0..n {
                    let k = crate::gval::gen_key(t, &fs);
                    let v = match t.choice(5) {
                        0 => GVal::Int(crate::gval::gen_int(t)),
                        1 => GVal::Str(crate::gval::gen_string(t)),
                        2 => GVal::Bool(t.chance(1, 2)),
                        3 => GVal::List((0..t.choice(3)).map(|_| GVal::Int(crate::gval::gen_int(t))).collect()),
                        _ => gen_val(t, &GenOpts { max_depth: 1, floats: true, ..o2.clone() }, 1),
                    };
                    fs.push((k, v));
                }
                (lit(GVal::Tuple(fs)), false)
            }
        }
        "xml" => {
            if bad {
                let e = *t.pick(&["5", "{}", "{root = 5}", "{root = {name = \"a\", text = \"t\"}}", "{version = \"9\", root = {name = \"a\"}}", "[1]", "{root = \"text\"}", "{root = {name = \"a\", children = [7]}}", "{root = {name = \"a\", children = [\"\\u{1}\"]}}"]);
                (e.replace("\\u{1}", "\u{1}"), true)
            } else {
                let text = crate::gval::gen_string(t).chars().filter(|c| matches!(*c as u32, 0x9 | 0xA | 0xD | 0x20..=0xD7FF | 0xE000..=0xFFFD | 0x10000..=0x10FFFF)).collect::<String>();
                let e = format!("{{root = {{name = \"doc\", attrs = {{id = {}}}, children = [{}, {{name = \"child\", children = [{{text = \"é\"}}]}}]}}}}", crate::reflex::quote(&text), crate::reflex::quote(&text));
                (e, false)
            }
        }
        "env" | "flags" => {
            if bad {
                let e = if conv == "flags" { *t.pick(&["5", "\"s\"", "[1]", "NULL", "true"]) } else { *t.pick(&["{A = c}", "{A = 1, B = c}"]) };
                (e.to_string(), conv == "flags")
            } else {
                let n = 1 + t.choice(4);
                let mut parts = vec![];
                for i in 0..n {
                    let v = match t.choice(6) {
                        0 => GVal::Int(crate::gval::gen_int(t)),
                        1 => GVal::Bool(t.chance(1, 2)),
                        2 => GVal::Null,
                        3 => GVal::List(vec![GVal::Str("x y".into()), GVal::Int(2)]),
                        _ => GVal::Str(crate::gval::gen_string(t).replace('\0', "")),
                    };
                    parts.push(format!("F{} = {}", i, lit(v)));
                }
                (format!("{{{}}}", parts.join(", ")), false)
            }
        }
        _ => {
            // exec
            if bad {
                let e = *t.pick(&["5", "{}", "{args = [\"a\"]}", "{command = 5}", "{command = \"c\", args = [1]}", "{command = \"c\", env = {A = 1}}", "{command = \"c\", args = \"a\"}", "{command = \"c\", env = [1]}", "{command = \"a\", args = [], env = {}, extra = 1}"]);
                (e.to_string(), true)
            } else {
                let s1 = crate::gval::gen_string(t).replace('\0', "");
                let s2 = crate::gval::gen_string(t).replace('\0', "");
                (format!("{{command = {}, args = [\"a\", {}, {{flag = {}}}], env = {{E = {}}}}}", crate::reflex::quote(&s1), crate::reflex::quote(&s2), crate::reflex::quote(&s1), crate::reflex::quote(&s2)), false)
            }
        }
    }
}

impl C14 {
    pub fn new(_tier: Tier) -> Self {
        C14 { ucg: Ucg::new(), home: crate::ucgrun::new_scratch_dir("c14home") }
    }
}

impl Property for C14 {
    fn id(&self) -> &'static str {
        "C14"
    }
    fn level(&self) -> &'static str {
        "fault_enumeration"
    }
    fn rule(&self) -> String {
        "every registered converter (json, yaml, yamlmulti, toml, xml, env, flags, exec) x generated values, 1 in 4 deliberately unconvertible (non-finite floats, constraint values, NULL / non-table for toml, non-tuple for flags/exec/xml, malformed xml and exec tuples) x {no, earlier-build, foreign} pre-existing artifact x {0, 1, 2} out statements x 4 file stems; built in-process through FileBuilder::build(path) and (1 in 8) by the real binary. The artifact must be the only new file, named <stem>.<documented extension>, byte-equal to the string `convert <fmt> <value>` evaluates to; a failed conversion must leave the directory byte-identical. Non-trivial: a failed conversion with a pre-existing artifact, or a successful one with a non-ASCII / multi-line value; distinct by (converter, value, pre-state, stem).".into()
    }
    fn assumptions(&self) -> Vec<String> {
        vec![
            "whether a value is convertible is decided by evaluating `convert <fmt> <value>` (the relation the property states), not by a model of each converter".into(),
            "extensions are taken from reference/converters.md: json, yaml, yaml (yamlmulti), toml, xml, env, txt (flags), sh (exec)".into(),
        ]
    }
    fn budget(&self, tier: Tier) -> Budget {
        Budget {
            cases: match tier {
                Tier::Quick => 6_400,
                Tier::Thorough => 120_000,
            },
            tape_min: 4,
            tape_max: 160,
        }
    }
    fn run_tape(&mut self, words: &[u32]) -> Outcome {
        let mut t = Tape::new(words);
        let (conv, ext) = CONVERTERS[t.choice(CONVERTERS.len())];
        let (expr, _bad) = gen_value_expr(conv, &mut t);
        let outs = t.weighted(&[1, 8, 2]);
        let pre = match t.weighted(&[3, 3, 2]) {
            0 => Pre::None,
            1 => Pre::Earlier,
            _ => Pre::Foreign,
        };
        let stem = *t.pick(&["main", "my.conf", "a b", "ünï"]);
        let via_cli = t.chance(1, 8);
        let prelude = "constraint c = in 1..5;\n";
        let mut src = String::from(prelude);
        let mut o_between = false;
        src.push_str(&format!("let v = {};\n", expr));
        for i in 0..outs {
            if t.chance(1, 2) {
                // evaluation that goes through nested VMs before / between the out statements
                src.push_str(*t.pick(&[
                    "let idf = func (a) => a;\nlet w1 = idf(1);\n",
                    "let w2 = map(func (e) => e + 1, [1, 2]);\n",
                    "let w3 = \"@{item + 1}\" % 1;\n",
                    "let md = module {a = 1} => (r) { let r = mod.a; };\nlet w4 = md{a = 2};\n",
                    "let lists = import \"std/lists.ucg\";\nlet w5 = lists.len([1]);\n",
                    "let w6 = reduce(func (acc, e) => acc + e, 0, [1, 2]);\n",
                ]));
                o_between = true;
            }
            if i == 1 {
                // the second out statement may name another converter
                let (c2, _) = CONVERTERS[t.choice(CONVERTERS.len())];
                src.push_str(&format!("out {} v;\n", if t.chance(1, 2) { conv } else { c2 }));
            } else {
                src.push_str(&format!("out {} v;\n", conv));
            }
        }
        let rendered = format!("[{}.ucg, pre-existing artifact: {:?}, via {}]\n{}", stem, pre, if via_cli { "ucg build" } else { "FileBuilder::build" }, src);
        let mut o = Outcome::pass(rendered.clone());
        o.key = fnv(rendered.as_bytes());
        o.class(conv);
        o.class(&format!("outs-{}", outs));
        if o_between {
            o.class("nested-evaluation-around-out");
        }

        // the oracle: what `convert` evaluates to
        self.ucg.reset();
        let conv_src = format!("{}let v = {};\nlet converted = convert {} v;\n", prelude, expr, conv);
        let want: Option<Vec<u8>> = match self.ucg.eval(&conv_src, true) {
            Ok(v) => match v.as_ref() {
                Val::Tuple(fs) => match fs.iter().find(|(k, _)| k.as_ref() == "converted").map(|(_, v)| v.clone()).as_deref() {
                    Some(Val::Str(s)) => Some(s.as_bytes().to_vec()),
                    _ => None,
                },
                _ => None,
            },
            Err(_) => None,
        };
        o.class(if want.is_some() { "convertible" } else { "unconvertible" });

        // the directory
        let dir = crate::ucgrun::new_scratch_dir("c14");
        let file = dir.join(format!("{}.ucg", stem));
        let artifact = dir.join(format!("{}.{}", stem, ext));
        match pre {
            Pre::None => {}
            Pre::Earlier => {
                // a real earlier build of another value with the same converter
                let earlier = match conv {
                    "xml" => "{root = {name = \"old\"}}",
                    "exec" => "{command = \"old\"}",
                    "json" | "yaml" | "yamlmulti" => "{old = \"artifact of the earlier build\", n = [1, 2, 3]}",
                    _ => "{OLD = \"artifact of the earlier build\"}",
                };
                std::fs::write(&file, format!("out {} {};\n", conv, earlier)).expect("write");
                self.ucg.reset();
                if self.ucg.build(&file, true).is_err() || !artifact.exists() {
                    let _ = std::fs::remove_dir_all(&dir);
                    panic!("harness: the earlier build for {} failed", conv);
                }
                // a later invocation is a new process: forget the per-path opcode cache
                self.ucg.poison();
            }
            Pre::Foreign => std::fs::write(&artifact, b"foreign bytes \xff\xfe not written by ucg\n").expect("write"),
        }
        std::fs::write(&file, &src).expect("write source");
        let before = snapshot(&dir);

        // build
        let (ok, diag) = if via_cli {
            o.class("via-cli");
            let r = cli::run_ucg(&cli::Cmd {
                args: vec!["build".into(), format!("{}.ucg", stem)],
                cwd: &dir,
                env: vec![],
                home: &self.home,
                timeout: std::time::Duration::from_secs(60),
                stdin: None,
            });
            if r.timed_out {
                let _ = std::fs::remove_dir_all(&dir);
                return Outcome::discard("cli timeout", rendered);
            }
            match r.code {
                Some(0) => (true, r.stderr),
                Some(1) => (false, r.stderr),
                _ => {
                    o.fail("C14/cli-crash", format!("`ucg build` ended with {}\nstderr: {}\n{}", r.describe(), r.stderr, rendered));
                    let _ = std::fs::remove_dir_all(&dir);
                    return o;
                }
            }
        } else {
            self.ucg.reset();
            match self.ucg.build(&file, true) {
                Ok(_) => (true, String::new()),
                Err(e) => (false, e),
            }
        };
        let after = snapshot(&dir);
        let new_files: Vec<&String> = after.keys().filter(|k| !before.contains_key(*k)).collect();
        let changed: Vec<&String> = before.keys().filter(|k| after.get(*k) != before.get(*k)).collect();
        let art_name = format!("{}.{}", stem, ext);

        match (outs, &want) {
            (0, _) => {
                if want.is_some() && !ok {
                    // no out statement: the build only binds v
                    o.fail("C14/build-fails-without-out", format!("the file has no out statement and its value converts, but the build fails: {}\n{}", diag, rendered));
                } else if !new_files.is_empty() || !changed.is_empty() {
                    o.fail("C14/artifact-without-out", format!("no out statement, yet files appeared {:?} / changed {:?}\n{}", new_files, changed, rendered));
                }
            }
            (1, Some(bytes)) => {
                o.nontrivial = !bytes.is_ascii() || bytes.iter().filter(|b| **b == b'\n').count() > 1;
                if !ok {
                    o.fail("C14/convertible-out-fails", format!("`convert {}` of the value works but building the `out` fails: {}\n{}", conv, diag, rendered));
                } else {
                    let others: Vec<&&String> = new_files.iter().filter(|f| ***f != art_name).collect();
                    let other_changed: Vec<&&String> = changed.iter().filter(|f| ***f != art_name).collect();
                    if !others.is_empty() || !other_changed.is_empty() {
                        o.fail("C14/extra-files", format!("files other than {} appeared {:?} or changed {:?}\n{}", art_name, others, other_changed, rendered));
                    } else {
                        match after.get(&art_name) {
                            None => o.fail("C14/artifact-missing-or-misnamed", format!("expected artifact {} but the directory holds {:?}\n{}", art_name, after.keys().collect::<Vec<_>>(), rendered)),
                            Some(got) => {
                                if got != bytes {
                                    o.fail("C14/artifact-differs-from-convert", format!("artifact {} ({} bytes) differs from the string `convert {}` evaluates to ({} bytes)\nartifact: {:?}\nconvert:  {:?}\n{}", art_name, got.len(), conv, bytes.len(), String::from_utf8_lossy(got), String::from_utf8_lossy(bytes), rendered));
                                }
                            }
                        }
                    }
                }
            }
            (1, None) => {
                o.nontrivial = pre != Pre::None;
                o.class(&format!("failed-conversion-pre-{:?}", pre));
                if ok {
                    o.fail("C14/unconvertible-out-succeeds", format!("`convert {}` of the value fails but the build of `out` succeeds\n{}", conv, rendered));
                } else if !new_files.is_empty() {
                    o.fail("C14/failed-build-leaves-artifact", format!("the conversion failed ({}) but new file(s) {:?} were left behind ({} bytes)\n{}", diag.lines().last().unwrap_or(""), new_files, new_files.iter().map(|f| after[*f].len().to_string()).collect::<Vec<_>>().join(","), rendered));
                } else if !changed.is_empty() {
                    o.fail("C14/failed-build-destroys-artifact", format!("the conversion failed ({}) and the pre-existing artifact {:?} was changed: {} bytes before, {} after\n{}", diag.lines().last().unwrap_or(""), changed, before[changed[0]].len(), after.get(changed[0]).map(|b| format!("{} bytes", b.len())).unwrap_or_else(|| "deleted".to_string()), rendered));
                } else if diag.trim().is_empty() {
                    o.fail("C14/no-diagnostic", format!("the build failed without a diagnostic\n{}", rendered));
                }
            }
            (_, _) => {
                // two out statements
                o.nontrivial = true;
                if ok {
                    o.fail("C14/second-out-accepted", format!("a file with two out statements builds\nfiles: {:?}\n{}", after.keys().collect::<Vec<_>>(), rendered));
                } else if want.is_some() && !diag.contains("one output") && !diag.contains("only have one") {
                    o.class("two-outs-other-error");
                }
            }
        }
        let _ = std::fs::remove_dir_all(&dir);
        o
    }
}
