//! C01 — compiled evaluation equals the language's definitional semantics.
//!
//! Oracle: the reference interpreter (refsem.rs) evaluates the generator's AST
//! by the rules of the language reference; the implementation compiles and
//! runs the rendered source (`eval_string` and `build(path)`).  Outcome classes
//! and every top-level binding must agree.

use crate::core::*;
use crate::prog::*;
use crate::proggen::{Gen, GenCfg};
use crate::refsem::{Interp, Stop, V};
use crate::tape::{fnv, Tape};
use crate::ucgrun::{show_val, Ucg};
use ucglib::build::Val;

pub struct C01 {
    tier: Tier,
    ucg: Ucg,
}

pub fn show_v(v: &V) -> String {
    match v {
        V::Null => "NULL".into(),
        V::Bool(b) => b.to_string(),
        V::Int(i) => i.to_string(),
        V::Float(f) => format!("{:?}f", f),
        V::Str(s) => format!("{:?}", s),
        V::List(l) => format!("[{}]", l.iter().map(show_v).collect::<Vec<_>>().join(", ")),
        V::Tuple(fs) => format!("{{{}}}", fs.iter().map(|(k, v)| format!("{:?} = {}", k, show_v(v))).collect::<Vec<_>>().join(", ")),
        V::ModTuple(fs) => format!("{{unordered: {}}}", fs.iter().map(|(k, v)| format!("{:?} = {}", k, show_v(v))).collect::<Vec<_>>().join(", ")),
        V::Func(_) => "<func>".into(),
        V::Module(_) => "<module>".into(),
    }
}

/// Does the implementation's value equal the reference value?
pub fn same(v: &V, got: &Val, path: &str) -> Result<(), String> {
    match (v, got) {
        (V::Null, Val::Empty) => Ok(()),
        // functions and modules are opaque in the build result
        (V::Func(_), Val::Empty) | (V::Module(_), Val::Empty) => Ok(()),
        (V::Bool(a), Val::Boolean(b)) if a == b => Ok(()),
        (V::Int(a), Val::Int(b)) if a == b => Ok(()),
        (V::Float(a), Val::Float(b)) if a.to_bits() == b.to_bits() || (a.is_nan() && b.is_nan()) || (*a == 0.0 && *b == 0.0) => Ok(()),
        (V::Str(a), Val::Str(b)) if a.as_str() == b.as_ref() => Ok(()),
        (V::List(a), Val::List(b)) => {
            if a.len() != b.len() {
                return Err(format!("at {}: reference list has {} items, build has {}", path, a.len(), b.len()));
            }
            for (i, (x, y)) in a.iter().zip(b.iter()).enumerate() {
                same(x, y, &format!("{}[{}]", path, i))?;
            }
            Ok(())
        }
        (V::Tuple(a), Val::Tuple(b)) => {
            if a.len() != b.len() || !a.iter().zip(b.iter()).all(|((k, _), (k2, _))| k.as_str() == k2.as_ref()) {
                return Err(format!("at {}: reference fields {:?}, build fields {:?}", path, a.iter().map(|(k, _)| k).collect::<Vec<_>>(), b.iter().map(|(k, _)| k.to_string()).collect::<Vec<_>>()));
            }
            for ((k, x), (_, y)) in a.iter().zip(b.iter()) {
                same(x, y, &format!("{}.{}", path, k))?;
            }
            Ok(())
        }
        (V::ModTuple(a), Val::Tuple(b)) => {
            if a.len() != b.len() {
                return Err(format!("at {}: reference fields {:?}, build fields {:?}", path, a.iter().map(|(k, _)| k).collect::<Vec<_>>(), b.iter().map(|(k, _)| k.to_string()).collect::<Vec<_>>()));
            }
            for (k, x) in a {
                match b.iter().find(|(k2, _)| k2.as_ref() == k.as_str()) {
                    Some((_, y)) => same(x, y, &format!("{}.{}", path, k))?,
                    None => return Err(format!("at {}: field {} missing from the build's tuple", path, k)),
                }
            }
            Ok(())
        }
        _ => Err(format!("at {}: reference value {} but the build has {}", path, clipv(&show_v(v)), clipv(&show_val(got)))),
    }
}

fn clipv(s: &str) -> String {
    if s.chars().count() > 300 {
        format!("{}…", s.chars().take(300).collect::<String>())
    } else {
        s.to_string()
    }
}

/// compare every top-level binding
pub fn same_bindings(want: &[(String, V)], got: &Val) -> Result<(), String> {
    let fs = match got {
        Val::Tuple(fs) => fs,
        other => return Err(format!("the build result is not a tuple: {}", show_val(other))),
    };
    for (name, v) in want {
        match fs.iter().find(|(k, _)| k.as_ref() == name.as_str()) {
            Some((_, g)) => same(v, g, name)?,
            None => return Err(format!("binding {} is missing from the build result", name)),
        }
    }
    for (k, _) in fs.iter() {
        if !want.iter().any(|(n, _)| n.as_str() == k.as_ref()) {
            return Err(format!("the build binds {} which the program does not", k));
        }
    }
    Ok(())
}

impl C01 {
    pub fn new(tier: Tier) -> Self {
        C01 { tier, ucg: Ucg::new() }
    }

    pub fn check_program(&mut self, prog: &[Stmt], used: &[&'static str]) -> Outcome {
        let src = Renderer::program(prog);
        let mut o = Outcome::pass(src.clone());
        o.key = fnv(src.as_bytes());
        o.portable = Some(serde_json::json!({"program": prog, "used": used}).to_string());
        for u in used {
            o.class(u);
        }
        let mut interp = Interp::new();
        let reference = interp.run(prog);
        let jumps = used.iter().any(|u| ["and-or", "select", "func", "module", "format-expr", "call", "module-instantiation", "reduce", "map-list", "filter-list", "map-tuple", "filter-tuple", "map-string", "filter-string"].contains(u));
        let reference = match reference {
            Err(Stop::Excluded(why)) => {
                o.class("excluded");
                o.verdict = Verdict::Discard(format!("excluded: {}", why));
                return o;
            }
            Ok(b) => Ok(b),
            Err(Stop::Fail(m)) => Err(m),
        };
        o.nontrivial = jumps;
        o.class(if reference.is_ok() { "reference-ok" } else { "reference-fails" });

        // implementation, path 1: eval_string (strict)
        self.ucg.reset();
        let ucg = &self.ucg;
        crate::props::c04::set_limit(4_000_000);
        let got = catch(std::panic::AssertUnwindSafe(|| ucg.eval(&src, true)));
        crate::props::c04::set_limit(u64::MAX);
        let got: Result<std::rc::Rc<Val>, String> = match got {
            Ok(r) => r,
            Err(pi) => {
                self.ucg.poison();
                if pi.msg.starts_with(crate::props::c04::WORK_LIMIT_MSG) {
                    o.verdict = Verdict::Discard("evaluation exceeds the work limit".into());
                    return o;
                }
                o.class("implementation-panics");
                Err(format!("panic: {} at {}", pi.msg, pi.loc))
            }
        };
        let known_sig = |interp: &Interp| -> Option<&'static str> {
            if interp.saw_permuted_eq {
                Some("C01/eq-permuted-tuple-fields")
            } else if interp.saw_nonbool_rhs {
                Some("C01/bool-op-rhs-unchecked")
            } else {
                None
            }
        };
        match (&reference, &got) {
            (Ok(want), Ok(val)) => {
                if let Err(why) = same_bindings(want, val) {
                    let sig = known_sig(&interp).unwrap_or("C01/value-differs");
                    o.fail(sig, format!("{}\nprogram:\n{}\nreference: {}\nbuild:     {}", why, src, want.iter().map(|(k, v)| format!("{} = {}", k, clipv(&show_v(v)))).collect::<Vec<_>>().join("; "), clipv(&show_val(val))));
                }
            }
            (Err(_), Err(_)) => {}
            (Ok(want), Err(e)) => {
                let sig = known_sig(&interp).unwrap_or("C01/build-fails-reference-succeeds");
                o.fail(sig, format!("the reference evaluates the program but the build fails: {}\nprogram:\n{}\nreference: {}", e, src, want.iter().map(|(k, v)| format!("{} = {}", k, clipv(&show_v(v)))).collect::<Vec<_>>().join("; ")));
            }
            (Err(m), Ok(val)) => {
                let sig = known_sig(&interp).unwrap_or("C01/build-succeeds-reference-fails");
                o.fail(sig, format!("the reference says the build fails ({}) but it succeeds\nprogram:\n{}\nbuild: {}", m, src, clipv(&show_val(val))));
            }
        }
        if o.is_fail() {
            return o;
        }
        // path 2: build(path) — compared when the static checker lets the program through
        self.ucg.reset();
        let (file, built) = {
            let u = &mut self.ucg;
            let r = catch(std::panic::AssertUnwindSafe(|| u.build_src(&src, true)));
            match r {
                Ok((p, r)) => (Some(p), r),
                Err(pi) => {
                    u.poison();
                    (None, Err(format!("panic: {} at {}", pi.msg, pi.loc)))
                }
            }
        };
        if let Some(f) = &file {
            self.ucg.cleanup_case_dir(f);
        }
        match (&reference, &built) {
            (Ok(want), Ok(val)) => {
                if let Err(why) = same_bindings(want, val) {
                    o.fail("C01/file-build-value-differs", format!("built as a file: {}\nprogram:\n{}", why, src));
                }
            }
            (Ok(_), Err(e)) => {
                if e.contains("Type error") {
                    o.class("checker-rejected");
                } else {
                    o.fail("C01/file-build-fails", format!("eval_string succeeds but building the same text as a file fails: {}\nprogram:\n{}", e, src));
                }
            }
            (Err(_), Err(_)) => {}
            (Err(m), Ok(_)) => o.fail("C01/file-build-succeeds-reference-fails", format!("the reference says the build fails ({}) but building the file succeeds\nprogram:\n{}", m, src)),
        }
        o
    }
}

impl Property for C01 {
    fn id(&self) -> &'static str {
        "C01"
    }
    fn rule(&self) -> String {
        "typed, size-bounded programs (depth <= 6 / 8, <= 12 / 30 statements, small literal pools, ~10% deliberately ill-typed or failing sub-terms, failing terms placed where short-circuit and select must skip them) over all expression constructs: arithmetic, comparison, && || not, selectors (name / quoted / index / computed), select with and without default and boolean keys, functions (closures, calls through tuple fields, wrong arity), copy with self, modules with parameters and out-expressions, map/filter/reduce over lists, tuples and strings, both format forms, ranges, casts, in, is, regex match, fail, TRACE; printed with minimal parentheses, evaluated by the reference interpreter and by the implementation (eval_string, build(path)). Non-trivial: the compiled form contains a patched jump (&& || select func module format-expression call functional-op) and the reference defines the outcome; distinct by rendered source.".into()
    }
    fn assumptions(&self) -> Vec<String> {
        vec![
            "the reference interpreter implements reference/{expressions,types,statements}.md and the assertions of integration_tests; where they are silent the case is excluded (class excluded), see DESIGN.md Appendix A".into(),
            "a panic of the implementation counts as a failing build here (crashes are C04's subject)".into(),
            "programs the static checker rejects in build(path) are C07's subject (class checker-rejected)".into(),
        ]
    }
    fn budget(&self, tier: Tier) -> Budget {
        Budget {
            cases: match tier {
                Tier::Quick => 40_000,
                Tier::Thorough => 1_000_000,
            },
            tape_min: 8,
            tape_max: 400,
        }
    }
    fn run_tape(&mut self, words: &[u32]) -> Outcome {
        let mut t = Tape::new(words);
        let cfg = if self.tier == Tier::Quick { GenCfg::quick() } else { GenCfg::thorough() };
        let mut g = Gen::new(&mut t, cfg);
        let prog = g.program();
        let used = g.used.clone();
        self.check_program(&prog, &used)
    }
    fn vacuity_floor(&self) -> Vec<(&'static str, f64)> {
        vec![("reference-ok", 10.0), ("reference-fails", 5.0)]
    }
    fn run_text(&mut self, text: &str) -> Outcome {
        let j: serde_json::Value = serde_json::from_str(text).expect("replay text is JSON");
        let prog: Vec<Stmt> = serde_json::from_value(j.get("program").cloned().expect("program")).expect("program encoding");
        let used: Vec<String> = j.get("used").and_then(|u| serde_json::from_value(u.clone()).ok()).unwrap_or_default();
        let leaked: Vec<&'static str> = used.into_iter().map(|s| &*Box::leak(s.into_boxed_str())).collect();
        self.check_program(&prog, &leaked)
    }
}
