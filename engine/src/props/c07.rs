//! C07 — the static checker never rejects a program that evaluates successfully.
//!
//! Oracle: differential.  `eval_string` (no checker) succeeds  =>  `build(path)`
//! of the same text (checker first, then the VM) succeeds with the same values.

use crate::core::*;
use crate::prog::*;
use crate::proggen::{Gen, GenCfg};
use crate::tape::{fnv, Tape};
use crate::ucgrun::{show_val, Ucg};
use ucglib::build::Val;

pub struct C07 {
    tier: Tier,
    ucg: Ucg,
}

pub fn val_eq(a: &Val, b: &Val) -> bool {
    match (a, b) {
        (Val::Float(x), Val::Float(y)) => x.to_bits() == y.to_bits() || (x.is_nan() && y.is_nan()),
        (Val::List(x), Val::List(y)) => x.len() == y.len() && x.iter().zip(y.iter()).all(|(p, q)| val_eq(p, q)),
        (Val::Tuple(x), Val::Tuple(y)) => {
            x.len() == y.len() && x.iter().all(|(k, v)| y.iter().any(|(k2, v2)| k == k2 && val_eq(v, v2)))
        }
        _ => a == b,
    }
}

impl C07 {
    pub fn new(tier: Tier) -> Self {
        C07 { tier, ucg: Ucg::new() }
    }

    /// a short classification of the checker's message (the signature of a finding)
    fn classify(msg: &str) -> String {
        let line = msg.lines().find(|l| l.contains("Type error")).unwrap_or(msg.lines().last().unwrap_or(""));
        let core = line.split(" at ").next().unwrap_or(line);
        let core: String = core.chars().map(|c| if c.is_ascii_digit() { '#' } else { c }).collect();
        let core = core.replace("Type error: ", "");
        // drop quoted names
        let mut out = String::new();
        let mut in_q = false;
        for c in core.chars() {
            if c == '\'' || c == '"' {
                in_q = !in_q;
                out.push('\'');
                continue;
            }
            if !in_q {
                out.push(c);
            }
        }
        out.split_whitespace().take(8).collect::<Vec<_>>().join("_")
    }

    pub fn check_source(&mut self, src: &str, used: &[&'static str], portable: Option<String>) -> Outcome {
        let mut o = Outcome::pass(src.to_string());
        o.key = fnv(src.as_bytes());
        o.portable = portable;
        for u in used {
            o.class(u);
        }
        self.ucg.reset();
        let ucg = &self.ucg;
        crate::props::c04::set_limit(4_000_000);
        let evald = catch(std::panic::AssertUnwindSafe(|| ucg.eval(src, true)));
        crate::props::c04::set_limit(u64::MAX);
        let evald = match evald {
            Ok(Ok(v)) => v,
            Ok(Err(_)) => {
                o.class("does-not-evaluate");
                o.verdict = Verdict::Discard("the program does not evaluate without the checker".into());
                return o;
            }
            Err(pi) => {
                self.ucg.poison();
                o.verdict = Verdict::Discard(if pi.msg.starts_with(crate::props::c04::WORK_LIMIT_MSG) { "evaluation exceeds the work limit".into() } else { "the evaluation panics".into() });
                return o;
            }
        };
        o.class("evaluates");
        o.nontrivial = used.iter().any(|u| {
            ["map-tuple", "filter-tuple", "reduce-tuple", "map-string", "filter-string", "reduce-string", "call-through-field", "module-instantiation", "copy", "select", "selector"].contains(u)
        });
        self.ucg.reset();
        crate::props::c04::set_limit(8_000_000);
        let (file, built) = {
            let u = &mut self.ucg;
            match catch(std::panic::AssertUnwindSafe(|| u.build_src(src, true))) {
                Ok((p, r)) => (Some(p), r),
                Err(pi) => {
                    u.poison();
                    (None, Err(format!("panic: {} at {}", pi.msg, pi.loc)))
                }
            }
        };
        crate::props::c04::set_limit(u64::MAX);
        if let Some(f) = &file {
            self.ucg.cleanup_case_dir(f);
        }
        match built {
            Ok(v) => {
                if !val_eq(&evald, &v) {
                    o.fail("C07/values-differ", format!("the file build binds different values than the evaluation without checker\nprogram:\n{}\nwithout checker: {}\nwith checker:    {}", src, show_val(&evald), show_val(&v)));
                }
            }
            Err(e) => {
                if e.contains("Type error") {
                    o.fail(&format!("C07/checker-rejects:{}", Self::classify(&e)), format!("the program evaluates to completion without the static checker but building it as a file is rejected: {}\nprogram:\n{}", e.lines().filter(|l| l.contains("Type error")).collect::<Vec<_>>().join(" | "), src));
                } else {
                    o.fail("C07/file-build-fails", format!("the program evaluates through eval_string but building it as a file fails: {}\nprogram:\n{}", e, src));
                }
            }
        }
        o
    }
}

impl Property for C07 {
    fn id(&self) -> &'static str {
        "C07"
    }
    fn rule(&self) -> String {
        "well-typed programs of the C01 generator's first-order fragment (literals, let-bound names, all operators, tuple/list literals, selection by literal/quoted/computed field or index, copy with self, select, direct calls of let-bound functions and calls through tuple fields, module instantiation, map/filter/reduce over lists, tuples and strings, both format forms, ranges, casts; no `::` constraints, no deliberately failing terms); programs that evaluate through eval_string (no checker) are built as files (checker + VM) and must succeed with equal bindings; programs that do not evaluate are discarded. Non-trivial: the program evaluates and uses a functional op over a tuple or string, a call through a field, a module instantiation, copy, select or a selector; distinct by source.".into()
    }
    fn assumptions(&self) -> Vec<String> {
        vec!["eval_string is evaluation without static checking, build(path) is checker + the same VM (environment.rs)".into()]
    }
    fn budget(&self, tier: Tier) -> Budget {
        Budget {
            cases: match tier {
                Tier::Quick => 30_000,
                Tier::Thorough => 600_000,
            },
            tape_min: 8,
            tape_max: 300,
        }
    }
    fn run_tape(&mut self, words: &[u32]) -> Outcome {
        let mut t = Tape::new(words);
        let mut cfg = if self.tier == Tier::Quick { GenCfg::quick() } else { GenCfg::thorough() };
        cfg.well_typed_only = true;
        cfg.max_depth = 4;
        cfg.max_stmts = 8;
        let mut g = Gen::new(&mut t, cfg);
        let prog = g.program();
        let used = g.used.clone();
        let src = Renderer::program(&prog);
        // the reference interpreter only gates runaway programs (huge values, long loops) here
        let mut interp = crate::refsem::Interp::new();
        if let Err(crate::refsem::Stop::Excluded(why)) = interp.run(&prog) {
            if why.contains("limit") {
                return Outcome::discard("program too expensive to evaluate", src);
            }
        }
        self.check_source(&src, &used, Some(src.clone()))
    }
    fn run_text(&mut self, text: &str) -> Outcome {
        self.check_source(text, &[], Some(text.to_string()))
    }
    fn vacuity_floor(&self) -> Vec<(&'static str, f64)> {
        vec![("evaluates", 40.0)]
    }
}
