//! C19 — standard-library list, tuple and string helpers compute what they document.
//!
//! Oracle: reference implementations of each helper in Rust.

use crate::core::*;
use crate::gval::GVal;
use crate::tape::{fnv, Tape};
use crate::ucgrun::Ucg;
use ucglib::build::Val;

pub struct C19 {
    ucg: Ucg,
}

#[derive(Clone, Debug)]
struct Call {
    helper: &'static str,
    /// UCG expression
    expr: String,
    want: GVal,
    nontrivial: bool,
}

const PRELUDE: &str = "let lists = import \"std/lists.ucg\";\nlet tuples = import \"std/tuples.ucg\";\nlet strings = import \"std/strings.ucg\";\nlet f = import \"std/functional.ucg\";\nlet schema = import \"std/schema.ucg\";\n";

fn lit(v: &GVal) -> String {
    v.to_ucg().expect("literal")
}

fn gen_scalar(t: &mut Tape) -> GVal {
    match t.weighted(&[5, 4, 2, 1, 1]) {
        0 => GVal::Int(t.range(-5, 20)),
        1 => GVal::Str((*t.pick(&["", "a", "b", "foo", "x y", "é", "日本", "1", ","])).to_string()),
        2 => GVal::Bool(t.chance(1, 2)),
        3 => GVal::Null,
        _ => GVal::Float(*t.pick(&[0.5, 1.5, 2.25])),
    }
}

fn gen_list(t: &mut Tape, max: usize) -> Vec<GVal> {
    let n = t.weighted(&[2, 2, 3, 3, 2, 2, 1, 1, 1, 1, 1, 1, 1]).min(max);
    (0..n)
        .map(|_| {
            if t.chance(1, 8) {
                GVal::List(vec![GVal::Int(t.range(0, 3))])
            } else if t.chance(1, 10) {
                GVal::Tuple(vec![("k".into(), GVal::Int(t.range(0, 3)))])
            } else {
                gen_scalar(t)
            }
        })
        .collect()
}

fn gen_str(t: &mut Tape, seps: &[&str]) -> String {
    let n = t.choice(21);
    let mut s = String::new();
    for _ in 0..n {
        if !seps.is_empty() && t.chance(1, 4) {
            s.push_str(seps[t.choice(seps.len())]);
        } else {
            s.push(*t.pick(&['a', 'b', 'c', 'x', ' ', ',', '=', '>', '-', '1', '7', 'é', '日', 'ß']));
        }
        if s.chars().count() >= 20 {
            break;
        }
    }
    s.chars().take(20).collect()
}

fn gen_tuple(t: &mut Tape) -> Vec<(String, GVal)> {
    let n = t.choice(9);
    let mut fs: Vec<(String, GVal)> = vec![];
    for i in 0..n {
        let k = match t.choice(3) {
            0 => format!("f{}", i),
            1 => (*t.pick(&["a", "b", "name", "x-y", "k_1"])).to_string(),
            _ => (*t.pick(&["a b", "é", "1", ""])).to_string(),
        };
        if fs.iter().any(|(k2, _)| *k2 == k) {
            continue;
        }
        let v = if t.chance(1, 4) { GVal::Null } else { gen_scalar(t) };
        fs.push((k, v));
    }
    fs
}

fn type_name(v: &GVal) -> &'static str {
    match v {
        GVal::Null => "null",
        GVal::Bool(_) => "bool",
        GVal::Int(_) => "int",
        GVal::Float(_) => "float",
        GVal::Str(_) => "str",
        GVal::List(_) => "list",
        GVal::Tuple(_) => "tuple",
        GVal::Constraint => "constraint",
    }
}

/// schema.shaped by its documentation
fn shaped(val: &GVal, shape: &GVal, partial: bool) -> bool {
    match (val, shape) {
        (GVal::Tuple(vf), GVal::Tuple(sf)) => {
            // every field of the shape is present in the value with the same shape
            for (k, s) in sf {
                match vf.iter().find(|(k2, _)| k2 == k) {
                    Some((_, v)) => {
                        if !shaped(v, s, partial) {
                            return false;
                        }
                    }
                    None => return false,
                }
            }
            // without partial matching the value has no other fields
            partial || vf.iter().all(|(k, _)| sf.iter().any(|(k2, _)| k2 == k))
        }
        (GVal::List(items), GVal::List(types)) => types.is_empty() || items.iter().all(|it| types.iter().any(|ty| shaped(it, ty, false))),
        _ => type_name(val) == type_name(shape),
    }
}

fn gen_call(t: &mut Tape) -> Call {
    let k = t.choice(26);
    match k {
        0 => {
            let l = gen_list(t, 12);
            Call { helper: "lists.len", expr: format!("lists.len({})", lit(&GVal::List(l.clone()))), want: GVal::Int(l.len() as i64), nontrivial: l.is_empty() }
        }
        1 => {
            let l = gen_list(t, 12);
            let mut r = l.clone();
            r.reverse();
            Call { helper: "lists.reverse", expr: format!("lists.reverse({})", lit(&GVal::List(l.clone()))), want: GVal::List(r), nontrivial: l.len() <= 1 }
        }
        2 => {
            // involution and length preservation
            let l = gen_list(t, 12);
            Call { helper: "lists.reverse-involution", expr: format!("{{twice = lists.reverse(lists.reverse({0})), len = lists.len(lists.reverse({0}))}}", lit(&GVal::List(l.clone()))), want: GVal::Tuple(vec![("twice".into(), GVal::List(l.clone())), ("len".into(), GVal::Int(l.len() as i64))]), nontrivial: true }
        }
        3 => {
            let l = gen_list(t, 6);
            let want = if l.is_empty() { vec![] } else { vec![l[0].clone()] };
            Call { helper: "lists.head", expr: format!("lists.head({})", lit(&GVal::List(l.clone()))), want: GVal::List(want), nontrivial: l.is_empty() }
        }
        4 => {
            let l = gen_list(t, 6);
            let want: Vec<GVal> = l.iter().skip(1).cloned().collect();
            Call { helper: "lists.tail", expr: format!("lists.tail({})", lit(&GVal::List(l.clone()))), want: GVal::List(want), nontrivial: l.len() <= 1 }
        }
        5 => {
            let l = gen_list(t, 8);
            let start = t.range(-3, 5);
            let step = t.range(1, 4);
            let want: Vec<GVal> = l.iter().enumerate().map(|(i, v)| GVal::List(vec![GVal::Int(start + i as i64 * step), v.clone()])).collect();
            Call { helper: "lists.enumerate", expr: format!("lists.enumerate{{start = {}, step = {}, list = {}}}", lit(&GVal::Int(start)), step, lit(&GVal::List(l.clone()))), want: GVal::List(want), nontrivial: l.is_empty() || start != 0 || step != 1 }
        }
        6 => {
            let a = gen_list(t, 6);
            let b = gen_list(t, 6);
            let want: Vec<GVal> = a.iter().zip(b.iter()).map(|(x, y)| GVal::List(vec![x.clone(), y.clone()])).collect();
            Call { helper: "lists.zip", expr: format!("lists.zip{{list1 = {}, list2 = {}}}", lit(&GVal::List(a.clone())), lit(&GVal::List(b.clone()))), want: GVal::List(want), nontrivial: a.len() != b.len() || a.is_empty() }
        }
        7 => {
            // slice: inclusive index range, only in-range requests
            let l = gen_list(t, 10);
            if l.is_empty() {
                return Call { helper: "lists.slice", expr: "lists.slice{list = []}".into(), want: GVal::List(vec![]), nontrivial: true };
            }
            let start = t.choice(l.len());
            if start >= 2 && t.chance(1, 5) {
                // both indices in the list, the end before the start: no index lies between them
                let end = t.choice(start - 1);
                return Call { helper: "lists.slice", expr: format!("lists.slice{{start = {}, end = {}, list = {}}}", start, end, lit(&GVal::List(l.clone()))), want: GVal::List(vec![]), nontrivial: true };
            }
            let end = start + t.choice(l.len() - start);
            let with_end = t.chance(3, 4);
            let (expr, want) = if with_end {
                (format!("lists.slice{{start = {}, end = {}, list = {}}}", start, end, lit(&GVal::List(l.clone()))), l[start..=end].to_vec())
            } else {
                (format!("lists.slice{{start = {}, list = {}}}", start, lit(&GVal::List(l.clone()))), l[start..].to_vec())
            };
            Call { helper: "lists.slice", expr, want: GVal::List(want), nontrivial: start == end || end == l.len() - 1 || start == 0 }
        }
        8 => {
            // str_join over strings and ints
            let n = t.choice(7);
            let items: Vec<GVal> = (0..n).map(|_| if t.chance(1, 4) { GVal::Int(t.range(0, 99)) } else { GVal::Str((*t.pick(&["", "a", "b", "foo", "x y", "é"])).to_string()) }).collect();
            let sep = (*t.pick(&[",", " ", "", ", ", "=>", "--"])).to_string();
            let parts: Vec<String> = items.iter().map(|v| match v { GVal::Int(i) => i.to_string(), GVal::Str(s) => s.clone(), _ => String::new() }).collect();
            Call { helper: "lists.str_join", expr: format!("lists.str_join{{sep = {}, list = {}}}", lit(&GVal::Str(sep.clone())), lit(&GVal::List(items.clone()))), want: GVal::Str(parts.join(&sep)), nontrivial: items.is_empty() || sep.chars().count() != 1 || parts.iter().any(|p| p.is_empty()) }
        }
        9 => {
            let fs = gen_tuple(t);
            Call { helper: "tuples.fields", expr: format!("tuples.fields{{tpl = {}}}", lit(&GVal::Tuple(fs.clone()))), want: GVal::List(fs.iter().map(|(k, _)| GVal::Str(k.clone())).collect()), nontrivial: fs.is_empty() }
        }
        10 => {
            let fs = gen_tuple(t);
            Call { helper: "tuples.values", expr: format!("tuples.values{{tpl = {}}}", lit(&GVal::Tuple(fs.clone()))), want: GVal::List(fs.iter().map(|(_, v)| v.clone()).collect()), nontrivial: fs.is_empty() || fs.iter().any(|(_, v)| matches!(v, GVal::Null)) }
        }
        11 => {
            let fs = gen_tuple(t);
            Call { helper: "tuples.iter", expr: format!("tuples.iter{{tpl = {}}}", lit(&GVal::Tuple(fs.clone()))), want: GVal::List(fs.iter().map(|(k, v)| GVal::List(vec![GVal::Str(k.clone()), v.clone()])).collect()), nontrivial: fs.is_empty() }
        }
        12 => {
            let fs = gen_tuple(t);
            let want: Vec<(String, GVal)> = fs.iter().filter(|(_, v)| !matches!(v, GVal::Null)).cloned().collect();
            Call { helper: "tuples.strip_nulls", expr: format!("tuples.strip_nulls{{tpl = {}}}", lit(&GVal::Tuple(fs.clone()))), want: GVal::Tuple(want.clone()), nontrivial: want.len() != fs.len() || fs.is_empty() }
        }
        13 => {
            let fs = gen_tuple(t);
            let n = t.choice(4);
            let mut names = vec![];
            for _ in 0..n {
                if !fs.is_empty() && t.chance(2, 3) {
                    names.push(fs[t.choice(fs.len())].0.clone());
                } else {
                    names.push((*t.pick(&["missing", "zz", "a"])).to_string());
                }
            }
            let want = names.iter().all(|n| fs.iter().any(|(k, _)| k == n));
            Call { helper: "tuples.has_fields", expr: format!("tuples.has_fields{{tpl = {}, fields = {}}}", lit(&GVal::Tuple(fs.clone())), lit(&GVal::List(names.iter().map(|n| GVal::Str(n.clone())).collect()))), want: GVal::Bool(want), nontrivial: names.is_empty() || fs.is_empty() }
        }
        14 => {
            let s = gen_str(t, &[]);
            Call { helper: "strings.len", expr: format!("strings.ops{{str = {}}}.len", lit(&GVal::Str(s.clone()))), want: GVal::Int(s.chars().count() as i64), nontrivial: s.is_empty() || !s.is_ascii() }
        }
        15 => {
            let s = gen_str(t, &[]);
            Call { helper: "strings.chars", expr: format!("strings.ops{{str = {}}}.chars", lit(&GVal::Str(s.clone()))), want: GVal::List(s.chars().map(|c| GVal::Str(c.to_string())).collect()), nontrivial: s.is_empty() || !s.is_ascii() }
        }
        16 | 17 => {
            let sep = (*t.pick(&[",", " ", "=>", "--", "ab", "aab", ", ", "é", "==="])).to_string();
            let s = gen_str(t, &[&sep, &sep[..sep.chars().next().unwrap().len_utf8()]]);
            let parts: Vec<GVal> = s.split(sep.as_str()).map(|p| GVal::Str(p.to_string())).collect();
            if k == 16 {
                Call { helper: "strings.split_on", expr: format!("strings.ops{{str = {}}}.split_on{{on = {}}}", lit(&GVal::Str(s.clone())), lit(&GVal::Str(sep.clone()))), want: GVal::List(parts), nontrivial: s.is_empty() || sep.chars().count() > 1 || s.starts_with(&sep) || s.ends_with(&sep) }
            } else {
                // split then join restores the string
                Call { helper: "strings.split_on+str_join", expr: format!("lists.str_join{{sep = {1}, list = strings.ops{{str = {0}}}.split_on{{on = {1}}}}}", lit(&GVal::Str(s.clone())), lit(&GVal::Str(sep.clone()))), want: GVal::Str(s.clone()), nontrivial: s.starts_with(&sep) || s.ends_with(&sep) || s.contains(&format!("{0}{0}", sep)) }
            }
        }
        18 => {
            let s = gen_str(t, &[]);
            let n = s.chars().count();
            let idx = t.choice(n + 2);
            let left: String = s.chars().take(idx).collect();
            let right: String = s.chars().skip(idx).collect();
            Call { helper: "strings.split_at", expr: format!("strings.ops{{str = {}}}.split_at({})", lit(&GVal::Str(s.clone())), idx), want: GVal::Tuple(vec![("left".into(), GVal::Str(left)), ("right".into(), GVal::Str(right))]), nontrivial: idx == 0 || idx >= n }
        }
        19 => {
            let s = gen_str(t, &[]);
            let n = s.chars().count();
            let start = t.choice(n + 1);
            let end = start + t.choice(n + 2 - start.min(n + 1));
            let want: String = s.chars().enumerate().filter(|(i, _)| *i >= start && *i <= end).map(|(_, c)| c).collect();
            Call { helper: "strings.substr", expr: format!("strings.ops{{str = {}}}.substr{{start = {}, end = {}}}.str", lit(&GVal::Str(s.clone())), start, end), want: GVal::Str(want), nontrivial: start == end || end >= n || start == 0 }
        }
        20 => {
            // parse_int: leading digits
            let digits = t.range(1, 999999);
            let rest = (*t.pick(&["", "abc", " 12", "px", "-3", ".5", "٣abc", "７", "੩", "é9"])).to_string();
            let s = format!("{}{}", digits, rest);
            Call { helper: "strings.parse_int", expr: format!("strings.ops{{str = {}}}.parse_int().unwrap()", lit(&GVal::Str(s))), want: GVal::Int(digits), nontrivial: !rest.is_empty() }
        }
        21 => {
            let v = if t.chance(1, 3) { GVal::Null } else { GVal::Int(t.range(0, 50)) };
            let d = t.range(100, 200);
            let want_do = match &v { GVal::Int(i) => GVal::Int(i + 1), _ => GVal::Null };
            let want_or = match &v { GVal::Null => GVal::Int(d), other => other.clone() };
            Call {
                helper: "functional.maybe",
                expr: format!("{{is_null = f.maybe{{val = {0}}}.is_null(), unwrap = f.maybe{{val = {0}}}.unwrap(), do = f.maybe{{val = {0}}}.do(func (x) => x + 1).unwrap(), or = f.maybe{{val = {0}}}.or(func () => {1}).unwrap()}}", lit(&v), d),
                want: GVal::Tuple(vec![("is_null".into(), GVal::Bool(matches!(v, GVal::Null))), ("unwrap".into(), v.clone()), ("do".into(), want_do), ("or".into(), want_or)]),
                nontrivial: matches!(v, GVal::Null),
            }
        }
        22 => {
            let v = match t.choice(7) {
                0 => GVal::List(gen_list(t, 3)),
                1 => GVal::Tuple(gen_tuple(t)),
                _ => gen_scalar(t),
            };
            Call { helper: "schema.base_type_of", expr: format!("schema.base_type_of({})", lit(&v)), want: GVal::Str(type_name(&v).to_string()), nontrivial: matches!(v, GVal::Null | GVal::List(_) | GVal::Tuple(_)) }
        }
        23 | 24 => {
            // schema.any / schema.all over a list of shapes
            let val = match t.choice(3) {
                0 => GVal::Tuple(vec![("a".into(), GVal::Int(1)), ("b".into(), GVal::Str("x".into()))]),
                _ => {
                    let mut v = gen_scalar(t);
                    if matches!(v, GVal::Null) {
                        v = GVal::Int(3);
                    }
                    v
                }
            };
            let n = t.choice(4);
            let types: Vec<GVal> = (0..n)
                .map(|_| match t.choice(5) {
                    0 => GVal::Tuple(vec![("a".into(), GVal::Int(0))]),
                    1 => GVal::Tuple(vec![("a".into(), GVal::Int(0)), ("b".into(), GVal::Str("".into()))]),
                    2 => GVal::Int(0),
                    3 => GVal::Str("".into()),
                    _ => GVal::Float(0.5),
                })
                .collect();
            if k == 23 {
                let want = types.iter().any(|ty| shaped(&val, ty, false));
                Call { helper: "schema.any", expr: format!("schema.any{{val = {}, types = {}}}", lit(&val), lit(&GVal::List(types.clone()))), want: GVal::Bool(want), nontrivial: types.len() != 1 }
            } else {
                let want = types.iter().all(|ty| shaped(&val, ty, true));
                Call { helper: "schema.all", expr: format!("schema.all{{val = {}, types = {}}}", lit(&val), lit(&GVal::List(types.clone()))), want: GVal::Bool(want), nontrivial: types.len() != 1 }
            }
        }
        _ => {
            // schema.shaped on base types, flat / nested tuples, lists
            let shape = match t.choice(4) {
                0 => gen_scalar(t),
                1 => GVal::List((0..t.choice(3)).map(|_| gen_scalar(t)).collect()),
                _ => {
                    let n = 1 + t.choice(3);
                    GVal::Tuple((0..n).map(|i| (format!("s{}", i), if t.chance(1, 5) { GVal::Tuple(vec![("in".into(), gen_scalar(t))]) } else { gen_scalar(t) })).collect())
                }
            };
            // a value derived from the shape: same, changed leaf type, missing field, extra field
            let mut val = shape.clone();
            match (&mut val, t.choice(5)) {
                (GVal::Tuple(fs), 1) if !fs.is_empty() => {
                    let i = t.choice(fs.len());
                    fs[i].1 = if matches!(fs[i].1, GVal::Int(_)) { GVal::Str("x".into()) } else { GVal::Int(1) };
                }
                (GVal::Tuple(fs), 2) if !fs.is_empty() => {
                    let i = t.choice(fs.len());
                    fs.remove(i);
                }
                (GVal::Tuple(fs), 3) => fs.push(("extra".into(), GVal::Int(9))),
                (GVal::List(items), 1) => items.push(GVal::Tuple(vec![("odd".into(), GVal::Int(1))])),
                (GVal::List(items), 2) => items.clear(),
                (v, 4) => *v = gen_scalar(t),
                _ => {}
            }
            // NULL-valued leaves make base types ambiguous in the documentation: keep them out
            if val.any(|x| matches!(x, GVal::Null)) || shape.any(|x| matches!(x, GVal::Null)) {
                val = GVal::Int(1);
                return Call { helper: "schema.shaped", expr: format!("schema.shaped{{val = {}, shape = {}}}", lit(&val), lit(&GVal::Int(7))), want: GVal::Bool(true), nontrivial: false };
            }
            let partial = t.chance(1, 2);
            let want = shaped(&val, &shape, partial);
            Call { helper: "schema.shaped", expr: format!("schema.shaped{{val = {}, shape = {}, partial = {}}}", lit(&val), lit(&shape), partial), want: GVal::Bool(want), nontrivial: matches!(shape, GVal::Tuple(_) | GVal::List(_)) }
        }
    }
}

fn val_matches(want: &GVal, got: &Val) -> bool {
    match (want, got) {
        (GVal::Null, Val::Empty) => true,
        (GVal::Bool(a), Val::Boolean(b)) => a == b,
        (GVal::Int(a), Val::Int(b)) => a == b,
        (GVal::Float(a), Val::Float(b)) => a == b,
        (GVal::Str(a), Val::Str(b)) => a.as_str() == b.as_ref(),
        (GVal::List(a), Val::List(b)) => a.len() == b.len() && a.iter().zip(b.iter()).all(|(x, y)| val_matches(x, y)),
        (GVal::Tuple(a), Val::Tuple(b)) => a.len() == b.len() && a.iter().zip(b.iter()).all(|((k, x), (k2, y))| k.as_str() == k2.as_ref() && val_matches(x, y)),
        _ => false,
    }
}

impl C19 {
    pub fn new(_tier: Tier) -> Self {
        C19 { ucg: Ucg::new() }
    }

    fn build_calls(&mut self, calls: &[&Call]) -> Result<Vec<Option<std::rc::Rc<Val>>>, String> {
        let mut src = String::from(PRELUDE);
        for (i, c) in calls.iter().enumerate() {
            src.push_str(&format!("let r{} = {};\n", i, c.expr));
        }
        self.ucg.reset();
        crate::props::c04::set_limit(60_000_000);
        let (file, r) = {
            let u = &mut self.ucg;
            match catch(std::panic::AssertUnwindSafe(|| u.build_src(&src, true))) {
                Ok((p, r)) => (Some(p), r),
                Err(pi) => {
                    u.poison();
                    (None, Err(format!("panic: {} at {}", pi.msg, pi.loc)))
                }
            }
        };
        crate::props::c04::set_limit(u64::MAX);
        if let Some(f) = &file {
            self.ucg.cleanup_case_dir(f);
        }
        let v = r?;
        match v.as_ref() {
            Val::Tuple(fs) => Ok((0..calls.len()).map(|i| fs.iter().find(|(k, _)| k.as_ref() == format!("r{}", i)).map(|(_, v)| v.clone())).collect()),
            _ => Err("the build result is not a tuple".into()),
        }
    }

    fn judge(&mut self, c: &Call, got: Result<Option<std::rc::Rc<Val>>, String>) -> Outcome {
        let rendered = format!("{}  =>  expected {}", c.expr, c.want.show());
        let mut o = Outcome::pass(rendered.clone());
        o.key = fnv(rendered.as_bytes());
        o.class(c.helper);
        o.nontrivial = c.nontrivial;
        o.portable = Some(serde_json::json!({"helper": c.helper, "expr": c.expr, "want": c.want.to_json()}).to_string());
        match got {
            Ok(Some(v)) => {
                if !val_matches(&c.want, &v) {
                    o.fail(&format!("C19/{}-wrong-result", c.helper), format!("{} should be {} but is {}", c.expr, c.want.show(), crate::ucgrun::show_val(&v)));
                }
            }
            Ok(None) => o.fail(&format!("C19/{}-no-result", c.helper), format!("{} bound nothing", c.expr)),
            Err(e) => {
                if e.contains("Type error") {
                    // the static checker rejects the call: C07's subject, counted here
                    o.class("checker-rejected");
                    o.verdict = Verdict::Discard("the static checker rejects the call (C07)".into());
                } else if e.contains("work limit") {
                    o.verdict = Verdict::Discard("evaluation exceeds the work limit".into());
                } else {
                    o.fail(&format!("C19/{}-fails", c.helper), format!("{} should be {} but the build fails: {}", c.expr, c.want.show(), e.lines().take(4).collect::<Vec<_>>().join(" | ")));
                }
            }
        }
        o
    }
}

impl Property for C19 {
    fn id(&self) -> &'static str {
        "C19"
    }
    fn rule(&self) -> String {
        "random lists (0..12 mixed elements), tuples (0..8 fields incl. NULL values and names needing quotes), ASCII and Unicode strings (0..20 chars), separators of 1..3 characters (also at the start / end / consecutive / after a false start), in-range and boundary indices; each helper (lists.len reverse head tail enumerate zip slice str_join, tuples.fields values iter strip_nulls has_fields, strings.len chars split_on split_at substr parse_int, functional.maybe, schema.base_type_of shaped any all) is called through `import \"std/...\"` in a file built with the checker on, six calls per build, and the bound value is compared with a Rust reference implementation; reverse twice and split_on followed by str_join must restore the input. Non-trivial: empty input, boundary index, multi-character separator, unequal list lengths, NULL values, or a composite schema; distinct by call.".into()
    }
    fn assumptions(&self) -> Vec<String> {
        vec![
            "inputs outside what the helper documents are not generated (slice beyond the list, parse_int without leading digits, NULL-valued schema leaves)".into(),
            "a call the static checker rejects is C07's subject: it is discarded and counted; more than 5% of such calls makes the run vacuous".into(),
        ]
    }
    fn budget(&self, tier: Tier) -> Budget {
        Budget {
            cases: match tier {
                Tier::Quick => 6_000,
                Tier::Thorough => 150_000,
            },
            tape_min: 8,
            tape_max: 260,
        }
    }
    fn run_tape_batch(&mut self, words: &[u32]) -> Vec<Outcome> {
        let mut t = Tape::new(words);
        let n = 1 + t.choice(6);
        let calls: Vec<Call> = (0..n).map(|_| gen_call(&mut t)).collect();
        let refs: Vec<&Call> = calls.iter().collect();
        match self.build_calls(&refs) {
            Ok(vals) => calls.iter().zip(vals).map(|(c, v)| self.judge(c, Ok(v))).collect(),
            Err(_) => {
                // attribute the failure: every call alone
                let mut outs = vec![];
                for c in &calls {
                    let r = self.build_calls(&[c]).map(|mut v| v.pop().flatten());
                    outs.push(self.judge(c, r));
                }
                outs
            }
        }
    }
    fn run_tape(&mut self, words: &[u32]) -> Outcome {
        self.run_tape_batch(words).into_iter().next().unwrap()
    }
    fn run_text(&mut self, text: &str) -> Outcome {
        let j: serde_json::Value = serde_json::from_str(text).expect("replay text is JSON");
        let c = Call {
            helper: Box::leak(j.get("helper").and_then(|h| h.as_str()).unwrap_or("helper").to_string().into_boxed_str()),
            expr: j.get("expr").and_then(|e| e.as_str()).unwrap_or("").to_string(),
            want: GVal::from_json(j.get("want").expect("want")).expect("want encoding"),
            nontrivial: true,
        };
        let r = self.build_calls(&[&c]).map(|mut v| v.pop().flatten());
        self.judge(&c, r)
    }
}
