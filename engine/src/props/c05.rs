//! C05 — formatting a file never changes its meaning or loses its comments;
//! formatted text is a fixed point.
//!
//! Oracle: round trip.  out = render(parse(src)) must parse to the same
//! position-free program (field-name quoting ignored), carry the same comment
//! texts in the same order, and render(parse(out)) == out for sources whose
//! comments sit on lines of their own between statements.

use crate::cli;
use crate::core::*;
use crate::norm;
use crate::prog::*;
use crate::proggen::{Gen, GenCfg};
use crate::reflex::{self, Kind};
use crate::tape::{fnv, Tape};
use std::path::PathBuf;
use ucglib::iter::OffsetStrIter;

pub struct C05 {
    tier: Tier,
    corpus: Vec<PathBuf>,
    home: PathBuf,
}

/// the library path of `ucg fmt`: parse with a comment map, print
pub fn format_source(src: &str, indent: usize) -> Result<String, String> {
    let mut cmap = std::collections::BTreeMap::new();
    let stmts = ucglib::parse::parse(OffsetStrIter::new(src), Some(&mut cmap)).map_err(|e| format!("{}", e))?;
    let mut buf: Vec<u8> = vec![];
    {
        let mut p = ucglib::ast::printer::AstPrinter::new(indent, &mut buf).with_comment_map(&cmap);
        p.render(&stmts).map_err(|e| format!("render: {}", e))?;
    }
    String::from_utf8(buf).map_err(|e| format!("formatted text is not UTF-8: {}", e))
}

fn comments_of(src: &str) -> Option<Vec<String>> {
    let toks = reflex::lex(src).ok()?;
    Some(toks.into_iter().filter(|t| t.kind == Kind::Comment).map(|t| t.text.trim().to_string()).collect())
}

fn comments_between_statements_only(src: &str) -> bool {
    // every comment is on a line of its own, and that line is not inside a statement
    let toks = match reflex::lex(src) {
        Ok(t) => t,
        Err(_) => return false,
    };
    let mut depth = 0i32;
    let mut in_stmt = false;
    let line_starts: Vec<usize> = std::iter::once(0).chain(src.match_indices('\n').map(|(i, _)| i + 1)).collect();
    for t in &toks {
        if t.kind == Kind::Comment {
            let ls = line_starts[t.line - 1];
            let own_line = src[ls..t.offset].chars().all(|c| c == ' ' || c == '\t');
            if !own_line || in_stmt || depth != 0 {
                return false;
            }
            continue;
        }
        in_stmt = true;
        if t.kind == Kind::Punct {
            match t.src.as_str() {
                "{" | "(" | "[" => depth += 1,
                "}" | ")" | "]" => depth -= 1,
                ";" if depth == 0 => in_stmt = false,
                _ => {}
            }
        }
    }
    true
}

#[derive(Clone, Copy, PartialEq)]
pub enum Layout {
    /// random whitespace, newlines, CRLF and comments between any two tokens
    Wild,
    /// one statement per line, comments on lines of their own between statements
    Tidy,
}

pub fn layout(toks: &[String], t: &mut Tape, mode: Layout) -> String {
    let mut s = String::new();
    let mut depth = 0i32;
    if mode == Layout::Tidy && t.chance(1, 3) {
        s.push_str(*t.pick(&["// header\n", "//\n", "// one\n// two\n", "//no blank\n"]));
    }
    for (i, tok) in toks.iter().enumerate() {
        s.push_str(tok);
        match tok.as_str() {
            "{" | "(" | "[" => depth += 1,
            "}" | ")" | "]" => depth -= 1,
            _ => {}
        }
        if i + 1 == toks.len() {
            break;
        }
        match mode {
            Layout::Tidy => {
                if tok == ";" && depth == 0 {
                    s.push('\n');
                    if t.chance(1, 3) {
                        s.push_str(*t.pick(&["// a comment\n", "//\n", "// é ünï\n", "//   indented text\n", "// one\n// two\n", "\n// after a blank line\n", "//trailing blanks   \n"]));
                    }
                } else {
                    s.push(' ');
                }
            }
            Layout::Wild => {
                let glue_ok = reflex::can_glue(tok, &toks[i + 1]);
                match t.weighted(&[if glue_ok { 5 } else { 0 }, 8, 3, 1, 1, 2, 2, 1, 1]) {
                    0 => {}
                    1 => s.push(' '),
                    2 => s.push('\n'),
                    3 => s.push_str("\r\n"),
                    4 => s.push('\t'),
                    5 => s.push_str(" // note\n"),
                    6 => s.push_str("\n    // on its own line\n  "),
                    7 => s.push_str(" // é ünï\r\n  "),
                    _ => s.push_str("\n//\n"),
                }
            }
        }
    }
    s.push('\n');
    s
}

/// token-level decorations: trailing commas, redundant parentheses around integer literals
pub fn decorate(toks: Vec<String>, t: &mut Tape) -> Vec<String> {
    let mut out: Vec<String> = vec![];
    let n = toks.len();
    for i in 0..n {
        let tok = &toks[i];
        let prev = if i > 0 { toks[i - 1].as_str() } else { "" };
        let next = if i + 1 < n { toks[i + 1].as_str() } else { "" };
        if (tok == "}" || tok == "]") && !matches!(prev, "{" | "[" | "," | ";" | "}") && t.chance(1, 4) {
            // `}` after `}` may close a module body: leave those alone
            out.push(",".to_string());
        }
        let is_int = tok.bytes().all(|b| b.is_ascii_digit());
        if is_int && prev != "." && next != "." && prev != "%" && t.chance(1, 10) {
            out.push("(".into());
            out.push(tok.clone());
            out.push(")".into());
            continue;
        }
        out.push(tok.clone());
    }
    out
}

impl C05 {
    pub fn new(tier: Tier) -> Self {
        let mut corpus = vec![];
        for dir in ["/repo/integration_tests", "/repo/std", "/repo/examples", "/repo/example_errors", "/repo/docsite", "/repo/fuzz/corpus"] {
            for f in cli::list_files(std::path::Path::new(dir)) {
                let p = std::path::Path::new(dir).join(&f);
                if p.extension().and_then(|e| e.to_str()) == Some("ucg") {
                    corpus.push(p);
                }
            }
        }
        corpus.sort();
        C05 { tier, corpus, home: crate::ucgrun::new_scratch_dir("c05home") }
    }

    pub fn check_source(&mut self, src: &str, label: &str, via_cli: bool) -> Outcome {
        let mut o = Outcome::pass(src.to_string());
        o.key = fnv(src.as_bytes());
        o.portable = Some(src.to_string());
        o.class(label);
        // the source must be a program at all
        let stmts = match norm::parse_program(src) {
            Ok(s) => s,
            Err(_) => {
                o.verdict = Verdict::Discard("the source does not parse".into());
                return o;
            }
        };
        let want_norm = norm::norm_program(&stmts, false);
        let want_comments = match comments_of(src) {
            Some(c) => c,
            None => {
                o.verdict = Verdict::Discard("the reference lexer rejects the source".into());
                return o;
            }
        };
        let has_literal_interest = src.contains('.') || src.contains(':') || src.contains('\\') || !src.is_ascii() || src.contains("\"") ;
        o.nontrivial = !want_comments.is_empty() && has_literal_interest;
        if !want_comments.is_empty() {
            o.class("has-comments");
        }
        let formatted = match catch(|| format_source(src, 4)) {
            Ok(Ok(f)) => f,
            Ok(Err(e)) => {
                o.fail("C05/format-fails", format!("the source parses but formatting fails: {}\nsource:\n{}", e, src));
                return o;
            }
            Err(pi) => {
                o.fail(&format!("C05/{}", pi.sig()), format!("formatting panics: {} at {}\nsource:\n{}", pi.msg, pi.loc, src));
                return o;
            }
        };
        // 1. same program
        match norm::parse_program(&formatted) {
            Err(e) => {
                o.fail("C05/formatted-text-does-not-parse", format!("the formatted text no longer parses: {}\nsource:\n{}\nformatted:\n{}", e, src, formatted));
                return o;
            }
            Ok(s2) => {
                let got_norm = norm::norm_program(&s2, false);
                if got_norm != want_norm {
                    let (i, (a, b)) = want_norm
                        .iter()
                        .zip(got_norm.iter())
                        .enumerate()
                        .find(|(_, (a, b))| a != b)
                        .map(|(i, (a, b))| (i, (a.clone(), b.clone())))
                        .unwrap_or((want_norm.len().min(got_norm.len()), ("<statement count differs>".into(), format!("{} vs {}", want_norm.len(), got_norm.len()))));
                    o.fail("C05/meaning-changed", format!("the formatted text is a different program (statement {}):\nbefore: {}\nafter:  {}\nsource:\n{}\nformatted:\n{}", i + 1, a, b, src, formatted));
                    return o;
                }
            }
        }
        // 2. same comments, same order
        match comments_of(&formatted) {
            Some(got) => {
                if got != want_comments {
                    o.fail("C05/comments-changed", format!("comments before: {:?}\ncomments after:  {:?}\nsource:\n{}\nformatted:\n{}", want_comments, got, src, formatted));
                    return o;
                }
            }
            None => {
                o.fail("C05/formatted-text-does-not-lex", format!("source:\n{}\nformatted:\n{}", src, formatted));
                return o;
            }
        }
        // 3. fixed point (for the property's stated scope; reported otherwise)
        let again = match catch(|| format_source(&formatted, 4)) {
            Ok(Ok(f)) => f,
            Ok(Err(e)) => {
                o.fail("C05/formatted-text-does-not-format", format!("formatting the formatted text fails: {}\nformatted:\n{}", e, formatted));
                return o;
            }
            Err(pi) => {
                o.fail(&format!("C05/{}", pi.sig()), format!("formatting the formatted text panics: {} at {}\nformatted:\n{}", pi.msg, pi.loc, formatted));
                return o;
            }
        };
        if again != formatted {
            if comments_between_statements_only(&formatted) {
                o.fail("C05/not-a-fixed-point", format!("formatting already formatted text changes it\nfirst:\n{}\nsecond:\n{}", formatted, again));
                return o;
            }
            o.class("not-fixed-point-outside-scope");
        } else {
            o.class("fixed-point");
        }
        // the binary, for a sample
        if via_cli {
            o.class("via-cli");
            let dir = crate::ucgrun::new_scratch_dir("c05");
            let f = dir.join("input.ucg");
            std::fs::write(&f, src).expect("write");
            let r = cli::run_ucg(&cli::Cmd { args: vec!["fmt".into(), "input.ucg".into()], cwd: &dir, env: vec![], home: &self.home, timeout: std::time::Duration::from_secs(60), stdin: None });
            if !r.timed_out {
                if r.code != Some(0) || r.stdout != formatted {
                    o.fail("C05/cli-differs-from-library", format!("`ucg fmt` ({}) prints something else than the library path\nstdout:\n{}\nlibrary:\n{}\nstderr: {}", r.describe(), r.stdout, formatted, r.stderr));
                } else {
                    let r2 = cli::run_ucg(&cli::Cmd { args: vec!["fmt".into(), "-w".into(), "input.ucg".into()], cwd: &dir, env: vec![], home: &self.home, timeout: std::time::Duration::from_secs(60), stdin: None });
                    let written = std::fs::read_to_string(&f).unwrap_or_default();
                    if !r2.timed_out && (r2.code != Some(0) || written != formatted) {
                        o.fail("C05/fmt-w-differs", format!("`ucg fmt -w` ({}) leaves a file that differs from the library's output\nfile:\n{}\nlibrary:\n{}", r2.describe(), written, formatted));
                    }
                }
            }
            let _ = std::fs::remove_dir_all(&dir);
        }
        o
    }
}

impl Property for C05 {
    fn id(&self) -> &'static str {
        "C05"
    }
    fn rule(&self) -> String {
        "enumerated: every .ucg file in the repository (integration tests, std, examples, docsite, fuzz corpus); generated: programs of the C01 generator (all literal forms: floats with zero fraction, very large/small floats, ranges with a step, escapes, non-ASCII text, quoted field names) plus out / assert / import / include / constraint statements, re-laid-out at token level with random whitespace, newlines, CRLF, trailing commas, redundant parentheses and comments between any two tokens (wild) or one statement per line with comments on lines of their own (tidy, incl. blank comments); the text is formatted by the library path of `ucg fmt` (and 1 in 25 by the binary, also -w): it must parse to the same position-free program, keep the comment texts in order, and be a fixed point. Non-trivial: the source has a comment and a float, range, escape, non-ASCII character or string; distinct by source.".into()
    }
    fn assumptions(&self) -> Vec<String> {
        vec![
            "comment texts are compared after trimming blanks (the printer normalises one leading blank and trailing blanks)".into(),
            "the fixed-point clause is asserted when the formatted text has its comments on lines of their own between statements (the property's stated scope) and only counted otherwise".into(),
            "comments are never glued to a keyword without a blank (the tokenizer's keyword rule swallows those)".into(),
        ]
    }
    fn budget(&self, tier: Tier) -> Budget {
        Budget {
            cases: match tier {
                Tier::Quick => 16_000,
                Tier::Thorough => 300_000,
            },
            tape_min: 8,
            tape_max: 400,
        }
    }
    fn fixed_count(&mut self, _tier: Tier) -> u64 {
        self.corpus.len() as u64
    }
    fn run_fixed(&mut self, index: u64) -> Outcome {
        let p = self.corpus[index as usize].clone();
        let text = match std::fs::read_to_string(&p) {
            Ok(t) => t,
            Err(_) => return Outcome::discard("not UTF-8", p.display().to_string()),
        };
        if text.len() > 20_000 {
            return Outcome::discard("larger than 20 KB", p.display().to_string());
        }
        self.check_source(&text, "shipped-file", index % 10 == 0)
    }
    fn run_text(&mut self, text: &str) -> Outcome {
        self.check_source(text, "replay", true)
    }
    fn run_tape(&mut self, words: &[u32]) -> Outcome {
        let mut t = Tape::new(words);
        let mode = if t.chance(2, 5) { Layout::Tidy } else { Layout::Wild };
        let mut cfg = if self.tier == Tier::Quick { GenCfg::quick() } else { GenCfg::thorough() };
        cfg.max_depth = 4;
        cfg.max_stmts = 6;
        cfg.wrong_permille = 30;
        cfg.literal_variety = true;
        let (prog, extra) = {
            let mut g = Gen::new(&mut t, cfg);
            let prog = g.program();
            (prog, ())
        };
        let _ = extra;
        let mut src = Renderer::program(&prog);
        // statement kinds the evaluation properties do not use
        for _ in 0..t.choice(3) {
            src.push_str(*t.pick(&[
                "out json {a = 1, \"b c\" = [1, 2]};\n",
                "assert {ok = 1 == 1, desc = \"one is one\"};\n",
                "let imp = import \"std/lists.ucg\";\n",
                "let inc = include str \"./file.txt\";\n",
                "constraint port = in 1..65535 | 0;\n",
                "let p :: port = 80;\n",
                "let q :: in 0.5..1.5 = 1.0;\n",
                "let c = convert yaml {x = 0:2:10};\n",
                "let t = {\"quoted field\" = 1, \"_x\" = 2, \"NULL\" = 3, \"a-b\" = 4, \"x1\" = 5, \"\" = 6, \"true\" = 7};\n",
                "let f = func (a :: 0, b :: \"\") => a;\n",
                "let m = module {host :: \"\" = \"h\"} => (r :: \"\") { let r = mod.host; };\n",
                "let s = \"tab\\there \\\"q\\\" back\\\\slash é 日本\";\n",
                "let fl = [1.0, 0.5, 100.0, 0.0000001, 1000000000000000000000.0, .5];\n",
            ]));
        }
        let toks: Vec<String> = match reflex::lex(&src) {
            Ok(ts) => ts.into_iter().filter(|t| t.kind != Kind::Comment).map(|t| t.src).collect(),
            Err(_) => return Outcome::discard("generated source does not lex", src),
        };
        let toks = decorate(toks, &mut t);
        let text = layout(&toks, &mut t, mode);
        let via_cli = t.chance(1, 25);
        self.check_source(&text, if mode == Layout::Tidy { "tidy-layout" } else { "wild-layout" }, via_cli)
    }
    fn vacuity_floor(&self) -> Vec<(&'static str, f64)> {
        vec![("has-comments", 20.0), ("fixed-point", 10.0)]
    }
}
