//! C10 — bindings are immutable and lexically scoped.
//!
//! Oracles: (1) metamorphic — every prefix of a program agrees with every
//! longer prefix on the names it binds, and a failing prefix stays failing;
//! (2) name-collision templates whose expected outcome comes from the
//! reference interpreter; (3) rebinding and reserved words are errors.

use crate::core::*;
use crate::prog::*;
use crate::proggen::{Gen, GenCfg};
use crate::props::c01::{same_bindings, show_v};
use crate::props::c07::val_eq;
use crate::refsem::{Interp, Stop};
use crate::tape::{fnv, Tape};
use crate::ucgrun::{show_val, Ucg};
use std::rc::Rc;
use ucglib::build::Val;

pub struct C10 {
    tier: Tier,
    ucg: Ucg,
}

const RESERVED: [&str; 20] = [
    "let", "module", "func", "out", "assert", "self", "import", "include", "as", "map", "filter", "convert", "fail", "NULL", "in", "is", "TRACE",
    "env", "true", "false",
];

fn sym(s: &str) -> E {
    E::Sym(s.to_string())
}
fn int(i: i64) -> E {
    E::Int(i)
}
fn let_(n: &str, e: E) -> Stmt {
    Stmt::Let(n.to_string(), e)
}
fn func(ps: &[&str], body: E) -> E {
    E::Func { params: ps.iter().map(|s| s.to_string()).collect(), body: Box::new(body) }
}
fn call(f: &str, args: Vec<E>) -> E {
    E::Call { callee: Callee::Name(f.to_string()), args }
}
fn add(a: E, b: E) -> E {
    E::Bin(Op::Add, Box::new(a), Box::new(b))
}

impl C10 {
    pub fn new(tier: Tier) -> Self {
        C10 { tier, ucg: Ucg::new() }
    }

    /// An interactive session: a binding, then attempts to bind the same name again (a plain
    /// let, a let whose value fails, a constraint), with the name read back in between.
    fn gen_repl_session(t: &mut Tape) -> Vec<String> {
        let name = *t.pick(&["a", "limit", "cfg"]);
        let v1 = *t.pick(&["1", "\"one\"", "[[1], [2, 3]]", "[1, 2, 3]", "true", "1.5"]);
        let mut s = vec![];
        if t.chance(1, 3) {
            s.push("let other = 0;".to_string());
        }
        s.push(format!("let {} = {};", name, v1));
        s.push(format!("{};", name));
        for _ in 0..1 + t.choice(3) {
            s.push(match t.choice(5) {
                0 => format!("let {} = 2;", name),
                1 => format!("let {} = 1 / 0;", name),
                2 => format!("let {} = nosuchname;", name),
                3 => format!("constraint {} = in 1..5;", name),
                _ => format!("let {} = {};", name, v1),
            });
            s.push(format!("{};", name));
        }
        s
    }

    /// In `ucg repl` a refused rebinding leaves the binding as it was: the name reads back the
    /// same before and after every attempt.
    fn repl_check(&mut self, session: &[String]) -> Outcome {
        let script = session.join("\n") + "\n";
        let mut o = Outcome::pass(format!("[ucg repl]\n{}", script));
        o.key = fnv(script.as_bytes());
        o.portable = Some(serde_json::json!({"kind": "repl", "session": session}).to_string());
        o.class("repl-session");
        o.nontrivial = true;
        let dir = crate::ucgrun::new_scratch_dir("c10repl");
        let r = crate::cli::run_repl(&script, vec![], true, &dir, &dir);
        let _ = std::fs::remove_dir_all(&dir);
        if r.timed_out {
            o.verdict = Verdict::Discard("watchdog: ucg repl did not finish within 60 s".into());
            return o;
        }
        let lines = crate::cli::repl_lines(&r);
        // one answer per statement, in order
        if lines.len() != session.len() {
            o.class("repl-output-not-line-per-statement");
            return o;
        }
        let first_bind = session.iter().position(|st| st.starts_with("let ") && !st.starts_with("let other")).unwrap_or(0);
        let reads: Vec<&String> = session.iter().zip(&lines).filter(|(st, _)| !st.starts_with("let ") && !st.starts_with("constraint ")).map(|(_, l)| l).collect();
        for (st, l) in session.iter().zip(&lines).skip(first_bind + 1) {
            let binds = st.starts_with("let ") || st.starts_with("constraint ");
            if binds && !(l.contains("already exists") || l.contains(" at line")) {
                o.fail("C10/repl-rebinding-accepted", format!("`{}` was not refused in the repl session (answer: {})\nsession:\n{}\noutput:\n{}", st, l, script, lines.join("\n")));
                return o;
            }
        }
        if let Some(first) = reads.first() {
            if let Some(bad) = reads.iter().find(|l| l != &first) {
                o.fail("C10/repl-binding-changes", format!("the name read back as `{}` first and as `{}` after a refused rebinding\nsession:\n{}\noutput:\n{}", first, bad, script, lines.join("\n")));
            }
        }
        o
    }

    fn eval(&mut self, src: &str) -> Result<Rc<Val>, String> {
        self.ucg.reset();
        let ucg = &self.ucg;
        crate::props::c04::set_limit(4_000_000);
        let r = catch(std::panic::AssertUnwindSafe(|| ucg.eval(src, true)));
        crate::props::c04::set_limit(u64::MAX);
        match r {
            Ok(r) => r,
            Err(pi) => {
                self.ucg.poison();
                Err(format!("panic: {} at {}", pi.msg, pi.loc))
            }
        }
    }

    fn prefix_check(&mut self, prog: &[Stmt], used: &[&'static str]) -> Outcome {
        let full = Renderer::program(prog);
        let mut o = Outcome::pass(full.clone());
        o.key = fnv(full.as_bytes());
        o.portable = Some(serde_json::json!({"kind": "prefix", "program": prog}).to_string());
        o.class("prefix-runs");
        for u in used {
            o.class(u);
        }
        let nlets = prog.iter().filter(|s| matches!(s, Stmt::Let(..))).count();
        o.nontrivial = nlets >= 3 && used.iter().any(|u| *u == "func" || *u == "module");
        let mut results: Vec<Result<Rc<Val>, String>> = vec![];
        for k in 1..=prog.len() {
            let src = Renderer::program(&prog[..k]);
            let r = self.eval(&src);
            if let Err(e) = &r {
                if e.contains("work limit") {
                    o.verdict = Verdict::Discard("evaluation exceeds the work limit".into());
                    return o;
                }
            }
            results.push(r);
        }
        if results.last().map(|r| r.is_ok()).unwrap_or(false) {
            o.class("full-program-succeeds");
        }
        for k in 0..results.len() {
            // a failing prefix cannot be cured by later statements
            if results[k].is_err() {
                if let Some(m) = (k + 1..results.len()).find(|m| results[*m].is_ok()) {
                    o.fail("C10/failure-cured-by-later-statements", format!("the first {} statement(s) fail ({}) but the first {} succeed\nprogram:\n{}", k + 1, results[k].as_ref().err().unwrap().lines().next().unwrap_or(""), m + 1, full));
                    return o;
                }
                continue;
            }
            let vk = results[k].as_ref().unwrap();
            let fk = match vk.as_ref() {
                Val::Tuple(fs) => fs,
                _ => continue,
            };
            for m in k + 1..results.len() {
                if let Ok(vm) = &results[m] {
                    if let Val::Tuple(fm) = vm.as_ref() {
                        for (name, v) in fk.iter() {
                            match fm.iter().find(|(n, _)| n == name) {
                                Some((_, v2)) if val_eq(v, v2) => {}
                                Some((_, v2)) => {
                                    o.fail("C10/binding-changes-value", format!("binding {} is {} after {} statement(s) but {} after {}\nprogram:\n{}", name, show_val(v), k + 1, show_val(v2), m + 1, full));
                                    return o;
                                }
                                None => {
                                    o.fail("C10/binding-disappears", format!("binding {} made by the first {} statement(s) is gone after {}\nprogram:\n{}", name, k + 1, m + 1, full));
                                    return o;
                                }
                            }
                        }
                    }
                }
            }
        }
        o
    }

    /// a template whose outcome the reference interpreter decides
    fn template_check(&mut self, prog: &[Stmt], label: &str) -> Outcome {
        let src = Renderer::program(prog);
        let mut o = Outcome::pass(src.clone());
        o.key = fnv(src.as_bytes());
        o.portable = Some(serde_json::json!({"kind": "template", "label": label, "program": prog}).to_string());
        o.class("scope-template");
        o.class(label);
        o.nontrivial = true;
        let mut interp = Interp::new();
        let want = match interp.run(prog) {
            Ok(b) => Ok(b),
            Err(Stop::Fail(m)) => Err(m),
            Err(Stop::Excluded(why)) => {
                o.verdict = Verdict::Discard(format!("excluded: {}", why));
                return o;
            }
        };
        let got = self.eval(&src);
        match (&want, &got) {
            (Ok(w), Ok(g)) => {
                if let Err(why) = same_bindings(w, g) {
                    o.fail(&format!("C10/scope:{}", label), format!("{}\nprogram:\n{}\nexpected: {}\nbuild:    {}", why, src, w.iter().map(|(k, v)| format!("{} = {}", k, show_v(v))).collect::<Vec<_>>().join("; "), show_val(g)));
                } else {
                    // the same program built as a file (with the static checker): scoping is not
                    // the checker's to change
                    self.ucg.reset();
                    let (file, r) = {
                        let u = &mut self.ucg;
                        match catch(std::panic::AssertUnwindSafe(|| u.build_src(&src, true))) {
                            Ok((p, r)) => (Some(p), r),
                            Err(pi) => {
                                u.poison();
                                (None, Err(format!("panic: {} at {}", pi.msg, pi.loc)))
                            }
                        }
                    };
                    if let Some(f) = &file {
                        self.ucg.cleanup_case_dir(f);
                    }
                    match r {
                        Ok(g2) => {
                            if let Err(why) = same_bindings(w, &g2) {
                                o.fail(&format!("C10/scope-file-build:{}", label), format!("{} [built as a file]\nprogram:\n{}\nbuild: {}", why, src, show_val(&g2)));
                            }
                        }
                        Err(e) => o.fail(&format!("C10/scope-file-build:{}", label), format!("the program is valid by the scoping rules and evaluates, but building it as a file fails: {}\nprogram:\n{}", e, src)),
                    }
                }
            }
            (Err(_), Err(_)) => {}
            (Ok(w), Err(e)) => o.fail(&format!("C10/scope:{}", label), format!("the program is valid by the scoping rules but the build fails: {}\nprogram:\n{}\nexpected: {}", e, src, w.iter().map(|(k, v)| format!("{} = {}", k, show_v(v))).collect::<Vec<_>>().join("; "))),
            (Err(m), Ok(g)) => o.fail(&format!("C10/scope:{}", label), format!("the scoping rules make this program fail ({}) but it builds: {}\nprogram:\n{}", m, show_val(g), src)),
        }
        o
    }

    fn gen_template(&self, t: &mut Tape) -> (Vec<Stmt>, &'static str) {
        let a = t.range(1, 9);
        let b = t.range(10, 19);
        let outer_first = t.chance(1, 2);
        let name = *t.pick(&["x", "item", "p", "acc", "v1", "name"]);
        match t.choice(10) {
            9 => {
                // a module nested in a module, then a module-local name that a file-level binding of
                // another type also has; the file-level one is used afterwards
                let inner = E::Module { params: vec![("path".into(), E::Str("/h".into()))], out: None, body: vec![let_("url", E::Field(Box::new(sym("mod")), Sel::Name("path".into())))] };
                let outer = E::Module {
                    params: vec![("base".into(), int(b))],
                    out: None,
                    body: vec![let_("health", inner), let_(name, add(E::Field(Box::new(sym("mod")), Sel::Name("base".into())), int(a)))],
                };
                (
                    vec![
                        let_(name, E::Str("http".into())),
                        let_("service", outer),
                        let_("svc", E::Copy { base: "service".into(), path: vec![], fields: vec![] }),
                        let_("label", E::Bin(crate::prog::Op::Add, Box::new(sym(name)), Box::new(E::Str("-alt".into())))),
                    ],
                    "nested-module-local-vs-file-level",
                )
            }
            0 => {
                // parameter shadows an outer binding made before or after; the outer value is untouched
                let mut p = vec![];
                if outer_first {
                    p.push(let_(name, int(a)));
                }
                p.push(let_("f", func(&[name], add(sym(name), int(1)))));
                p.push(let_("r", call("f", vec![int(b)])));
                if !outer_first {
                    p.push(let_(name, int(a)));
                }
                p.push(let_("after", sym(name)));
                (p, "parameter-shadows-outer")
            }
            1 => {
                // a parameter does not leak into the caller
                (vec![let_("f", func(&[name], sym(name))), let_("r", call("f", vec![int(a)])), let_("leak", sym(name))], "parameter-does-not-leak")
            }
            2 => {
                // closure sees the binding as of its definition; later bindings are invisible to it
                (vec![let_("a", int(a)), let_("f", func(&[], add(sym("a"), sym("later")))), let_("later", int(b)), let_("r", call("f", vec![]))], "closure-cannot-see-later-binding")
            }
            3 => {
                // closure called after more bindings were added keeps its value
                (vec![let_("a", int(a)), let_("f", func(&["q"], add(sym("a"), sym("q")))), let_("b", int(b)), let_("r1", call("f", vec![int(1)])), let_("c", add(sym("a"), sym("b"))), let_("r2", call("f", vec![int(1)]))], "closure-result-stable")
            }
            4 => {
                // format `item` does not survive the expression
                let mut p = vec![];
                if outer_first {
                    p.push(let_("item", int(a)));
                }
                p.push(let_("s", E::FormatExpr(vec![Part::Lit("v=".into()), Part::Expr(sym("item"))], Box::new(int(b)))));
                p.push(let_("after", sym("item")));
                (p, "format-item-does-not-leak")
            }
            5 => {
                // a module body cannot see file-level names
                (vec![let_("a", int(a)), let_("m", E::Module { params: vec![], out: Some(Box::new(sym("a"))), body: vec![] }), let_("r", E::Copy { base: "m".into(), path: vec![], fields: vec![] })], "module-cannot-see-file-scope")
            }
            6 => {
                // module-local names do not leak and do not disturb outer names
                let mut p = vec![];
                if outer_first {
                    p.push(let_(name, int(a)));
                }
                p.push(let_("m", E::Module { params: vec![("k".into(), int(b))], out: Some(Box::new(sym(name))), body: vec![let_(name, add(E::Field(Box::new(sym("mod")), Sel::Name("k".into())), int(1)))] }));
                p.push(let_("r", E::Copy { base: "m".into(), path: vec![], fields: vec![] }));
                p.push(let_("after", sym(name)));
                (p, "module-locals-do-not-leak")
            }
            7 => {
                // function returning a function: the inner closure keeps the outer argument
                (vec![
                    let_("mk", func(&["n"], func(&["m"], add(sym("n"), sym("m"))))),
                    let_("add_a", call("mk", vec![int(a)])),
                    let_("n", int(b)),
                    let_("r", call("add_a", vec![int(1)])),
                ], "function-returning-function")
            }
            _ => {
                // map callback parameter vs outer binding of the same name
                let mut p = vec![];
                if outer_first {
                    p.push(let_(name, int(a)));
                }
                p.push(let_("r", E::Map(Box::new(func(&[name], add(sym(name), int(1)))), Box::new(E::List(vec![int(1), int(2)])))));
                if !outer_first {
                    p.push(let_(name, int(a)));
                }
                p.push(let_("after", sym(name)));
                (p, "callback-parameter-shadows-outer")
            }
        }
    }
}

impl Property for C10 {
    fn id(&self) -> &'static str {
        "C10"
    }
    fn rule(&self) -> String {
        "generated: programs of the C01 generator (functions, closures, modules, format expressions; parameter names coinciding with bindings made before and after) evaluated at every statement boundary — a failing prefix must stay failing and every name bound by a prefix must have the same value in every longer prefix; name-collision templates (parameter / callback parameter / module-local / format item vs outer bindings made before or after, closures called after later bindings, functions returning functions, modules referring to file scope) whose outcome the reference interpreter decides; enumerated: rebinding a name and binding each of the 20 reserved words must fail. Non-trivial: >= 3 bindings with a function or module, or a genuine name collision; distinct by source.".into()
    }
    fn assumptions(&self) -> Vec<String> {
        vec![
            "1 in 40 generated cases is an interactive session instead: a binding, then refused attempts to bind the name again (let, failing let, constraint) typed into `ucg repl`; the name must read back the same after every attempt".into(),
            "reserved words are the list in vm.rs plus env, true, false (the property's anchors); other grammar keywords accepted as names are not alarmed on".into(),
            "template outcomes come from the reference interpreter's lexical scoping rules (reference: Functions, Modules, Format expressions)".into(),
        ]
    }
    fn budget(&self, tier: Tier) -> Budget {
        Budget {
            cases: match tier {
                Tier::Quick => 8_000,
                Tier::Thorough => 150_000,
            },
            tape_min: 8,
            tape_max: 300,
        }
    }
    fn fixed_count(&mut self, _tier: Tier) -> u64 {
        // reserved words as let names + rebinding forms + reserved words as parameters of a
        // called function and of a map callback
        RESERVED.len() as u64 + 8 + 2 * RESERVED.len() as u64
    }
    fn fixed_exhaustive(&self) -> bool {
        true
    }
    fn run_fixed(&mut self, index: u64) -> Outcome {
        if index as usize >= RESERVED.len() + 8 {
            let k = index as usize - RESERVED.len() - 8;
            let w = RESERVED[k % RESERVED.len()];
            let src = if k < RESERVED.len() {
                format!("let f = func ({}) => 1;\nlet r = f(41);\n", w)
            } else {
                format!("let r = map(func ({}) => 1, [1, 2]);\n", w)
            };
            let mut o = Outcome::pass(src.clone());
            o.key = fnv(src.as_bytes());
            o.portable = Some(serde_json::json!({"kind": "must-fail", "source": src}).to_string());
            o.class("reserved-word-parameter");
            o.nontrivial = true;
            if let Ok(v) = self.eval(&src) {
                o.fail("C10/reserved-word-bound", format!("a reserved word is bound as a function parameter and the program builds: {}\n{}", show_val(&v), src));
            }
            return o;
        }
        let src = if (index as usize) < RESERVED.len() {
            format!("let {} = 1;\n", RESERVED[index as usize])
        } else {
            match index as usize - RESERVED.len() {
                0 => "let a = 1;\nlet a = 2;\n".to_string(),
                1 => "let a = 1;\nlet b = 2;\nlet a = 1;\n".to_string(),
                2 => "let f = func (x) => x;\nlet f = 3;\n".to_string(),
                // a `constraint` statement binds a name too
                3 => "let limit = 10;\nconstraint limit = in 1..5;\n".to_string(),
                4 => "constraint port = in 1..5;\nconstraint port = in 2..3;\n".to_string(),
                5 => "constraint port = in 1..5;\nlet port = 3;\n".to_string(),
                6 => "constraint shape = {a = 0};\nlet x = 1;\nconstraint shape = {b = \"\"};\n".to_string(),
                _ => "let m = module {} => { let q = 1; let q = 2; };\nlet r = m{};\n".to_string(),
            }
        };
        let mut o = Outcome::pass(src.clone());
        o.key = fnv(src.as_bytes());
        o.portable = Some(serde_json::json!({"kind": "must-fail", "source": src}).to_string());
        o.class(if (index as usize) < RESERVED.len() { "reserved-word" } else { "rebinding" });
        o.nontrivial = true;
        if let Ok(v) = self.eval(&src) {
            o.fail(if (index as usize) < RESERVED.len() { "C10/reserved-word-bound" } else { "C10/rebinding-accepted" }, format!("this program must be rejected but builds: {}\n{}", show_val(&v), src));
        }
        o
    }
    fn run_tape(&mut self, words: &[u32]) -> Outcome {
        let mut t = Tape::new(words);
        if t.chance(1, 40) {
            let session = Self::gen_repl_session(&mut t);
            return self.repl_check(&session);
        }
        if t.chance(1, 4) {
            let (prog, label) = self.gen_template(&mut t);
            return self.template_check(&prog, label);
        }
        let mut cfg = if self.tier == Tier::Quick { GenCfg::quick() } else { GenCfg::thorough() };
        cfg.max_depth = 4;
        cfg.max_stmts = 8;
        cfg.wrong_permille = 6;
        let mut g = Gen::new(&mut t, cfg);
        let prog = g.program();
        let used = g.used.clone();
        // gate runaway programs with the reference interpreter
        let mut interp = Interp::new();
        if let Err(Stop::Excluded(why)) = interp.run(&prog) {
            if why.contains("limit") {
                return Outcome::discard("program too expensive to evaluate", Renderer::program(&prog));
            }
        }
        self.prefix_check(&prog, &used)
    }
    fn run_text(&mut self, text: &str) -> Outcome {
        let j: serde_json::Value = serde_json::from_str(text).expect("replay text is JSON");
        match j.get("kind").and_then(|k| k.as_str()) {
            Some("prefix") => {
                let prog: Vec<Stmt> = serde_json::from_value(j.get("program").cloned().expect("program")).expect("program encoding");
                self.prefix_check(&prog, &[])
            }
            Some("repl") => {
                let session: Vec<String> = serde_json::from_value(j.get("session").cloned().expect("session")).expect("session encoding");
                self.repl_check(&session)
            }
            Some("template") => {
                let prog: Vec<Stmt> = serde_json::from_value(j.get("program").cloned().expect("program")).expect("program encoding");
                let label: &'static str = Box::leak(j.get("label").and_then(|l| l.as_str()).unwrap_or("template").to_string().into_boxed_str());
                self.template_check(&prog, label)
            }
            _ => {
                let src = j.get("source").and_then(|s| s.as_str()).unwrap_or("").to_string();
                let mut o = Outcome::pass(src.clone());
                if let Ok(v) = self.eval(&src) {
                    o.fail("C10/must-fail-accepted", format!("this program must be rejected but builds: {}\n{}", show_val(&v), src));
                }
                o
            }
        }
    }
    fn vacuity_floor(&self) -> Vec<(&'static str, f64)> {
        vec![("full-program-succeeds", 15.0), ("scope-template", 10.0)]
    }
}
