//! C12 — XML output is well-formed and mirrors the document the program described.
//!
//! Oracle: expat (through oracles/decode.py) parses the converter's bytes; the
//! tree it reports must equal the generated document model.  xml-rs's own
//! reader is a second opinion used to classify decoder limitations.

use crate::core::*;
use crate::gval::GVal;
use crate::pyoracle::PyOracle;
use crate::tape::{fnv, Tape};
use crate::ucgrun::Ucg;
use serde_json::Value as J;
use ucglib::build::Val;
use ucglib::convert::ConverterRegistry;

#[derive(Clone, Debug, PartialEq)]
enum Node {
    Elem {
        name: String,
        /// (prefix or "" for the default namespace, uri)
        ns: Option<(String, String)>,
        /// attributes, None = NULL value (omitted)
        attrs: Option<Vec<(String, Option<String>)>>,
        /// None = NULL children
        children: Option<Vec<Node>>,
    },
    /// bare string child
    Text(String),
    /// `{text = …}` child
    TextTuple(String),
}

#[derive(Clone, Debug, PartialEq)]
enum Malformed {
    None,
    NoRoot,
    NotTupleDoc,
    NodeNotTupleOrString,
    NameAndText,
    BadVersion,
    RootIsText,
}

struct Doc {
    /// decides the order of the fields inside every node tuple
    order: u64,
    version: Option<String>,
    encoding: Option<String>,
    standalone: Option<bool>,
    root: Node,
    malformed: Malformed,
}

pub struct C12 {
    py: Option<PyOracle>,
    reg: ConverterRegistry,
    ucg: Ucg,
}

const NAME_START: [&str; 16] = ["a", "b", "item", "Node", "_x", "é", "日本", "Ωmega", "tag", "x", "k", "row", "Łódź", "položka", "değer", "ɐʃ"];
const NAME_REST: [&str; 10] = ["", "1", "-b", ".c", "_d", "é", "·", "9", "ł", "ő"];
const PREFIXES: [&str; 4] = ["p", "ns1", "q", "é"];
const URIS: [&str; 7] = [
    "http://example.org",
    "urn:x:y",
    "http://example.org/?a=1&b=2",
    "http://e.org/\"q\"",
    "http://e.org/<t>",
    "u'v",
    "http://é.example/路",
];

fn gen_ncname(t: &mut Tape) -> String {
    format!("{}{}", t.pick(&NAME_START), t.pick(&NAME_REST))
}

fn gen_xml_char(t: &mut Tape, strict_xml: bool) -> char {
    match t.weighted(&[10, 6, 3, 3, 2, if strict_xml { 0 } else { 1 }]) {
        0 => *t.pick(&['a', 'b', 'Z', '0', '9', ' ', '.', '-', '_']),
        1 => *t.pick(&['<', '>', '&', '\'', '"', ']', '[', '!', '?', '/', '=', ';', '#']),
        2 => *t.pick(&[' ', '\t', '\n', '\r']),
        3 => *t.pick(&['é', 'ß', '日', '本', '😀', '\u{a0}', '\u{85}', '\u{2028}', '\u{fffd}', '\u{d7ff}', '\u{e000}', '\u{10000}', '\u{10ffff}']),
        4 => {
            // any XML 1.0 Char
            loop {
                let v = t.range(0x20, 0x10FFFF) as u32;
                if let Some(c) = char::from_u32(v) {
                    if c != '\u{fffe}' && c != '\u{ffff}' {
                        return c;
                    }
                }
                return 'x';
            }
        }
        _ => *t.pick(&['\u{1}', '\u{8}', '\u{b}', '\u{c}', '\u{1f}', '\u{fffe}', '\u{ffff}', '\u{0}']),
    }
}

fn gen_text(t: &mut Tape, strict_xml: bool) -> String {
    match t.weighted(&[3, 3, 8]) {
        0 => (*t.pick(&["", "text", "hello world", " ", "  \n", "a ]]> b", "<![CDATA[x]]>", "&amp;", "&#10;", "<b>", "--", "\r\n", "x\ry", "tab\there"])).to_string(),
        1 => (*t.pick(&["1 < 2 && 3 > 2", "\"quoted\" & 'single'", "trailing ", " leading", "multi\nline\ntext", "]]>", "<!-- c -->", "<?pi?>"])).to_string(),
        _ => {
            let n = t.choice(10);
            (0..n).map(|_| gen_xml_char(t, strict_xml)).collect()
        }
    }
}

fn is_xml_char(c: char) -> bool {
    matches!(c as u32, 0x9 | 0xA | 0xD | 0x20..=0xD7FF | 0xE000..=0xFFFD | 0x10000..=0x10FFFF)
}

impl C12 {
    pub fn new(_tier: Tier) -> Self {
        C12 {
            py: None,
            reg: ConverterRegistry::make_registry(),
            ucg: Ucg::new(),
        }
    }

    fn gen_node(&self, t: &mut Tape, depth: u32, scope: &mut Vec<String>, bad: &mut Option<Malformed>, strict_xml: bool) -> Node {
        // a declared namespace on this element?
        let ns = match t.weighted(&[6, 2, 2]) {
            0 => None,
            // the default namespace; `ns = ""` takes the element out of an inherited one
            1 => Some((String::new(), if t.chance(1, 4) { String::new() } else { t.pick(&URIS).to_string() })),
            _ => Some((t.pick(&PREFIXES).to_string(), t.pick(&URIS).to_string())),
        };
        let pushed = if let Some((p, _)) = &ns {
            if !p.is_empty() {
                scope.push(p.clone());
                true
            } else {
                false
            }
        } else {
            false
        };
        let local = gen_ncname(t);
        let name = if !scope.is_empty() && t.chance(1, 3) {
            format!("{}:{}", scope[t.choice(scope.len())], local)
        } else {
            local
        };
        let attrs = match t.weighted(&[3, 1, 6]) {
            0 => None,
            1 => Some(vec![]),
            _ => {
                let n = 1 + t.choice(3);
                let mut out: Vec<(String, Option<String>)> = vec![];
                if ns.is_none() && t.chance(1, 8) {
                    // the default namespace declared through attrs instead of ns
                    out.push(("xmlns".to_string(), Some(URIS[0].to_string())));
                }
                for _ in 0..n {
                    let mut an = gen_ncname(t);
                    if !scope.is_empty() && t.chance(1, 5) {
                        an = format!("{}:{}", scope[t.choice(scope.len())], an);
                    }
                    if out.iter().any(|(k, _)| *k == an) || an.starts_with("xml") {
                        continue;
                    }
                    let v = if t.chance(1, 6) { None } else { Some(gen_text(t, strict_xml)) };
                    out.push((an, v));
                }
                Some(out)
            }
        };
        let children = if depth >= 4 {
            if t.chance(1, 2) { None } else { Some(vec![]) }
        } else {
            match t.weighted(&[2, 1, 8]) {
                0 => None,
                1 => Some(vec![]),
                _ => {
                    let n = t.choice(5);
                    let mut out = vec![];
                    for _ in 0..n {
                        match t.weighted(&[5, 3, 2]) {
                            0 => out.push(self.gen_node(t, depth + 1, scope, bad, strict_xml)),
                            1 => out.push(Node::Text(gen_text(t, strict_xml))),
                            _ => out.push(Node::TextTuple(gen_text(t, strict_xml))),
                        }
                    }
                    Some(out)
                }
            }
        };
        if pushed {
            scope.pop();
        }
        Node::Elem { name, ns, attrs, children }
    }

    fn gen_doc(&self, t: &mut Tape) -> Doc {
        let malformed = match t.weighted(&[40, 1, 1, 1, 1, 1, 1]) {
            0 => Malformed::None,
            1 => Malformed::NoRoot,
            2 => Malformed::NotTupleDoc,
            3 => Malformed::NodeNotTupleOrString,
            4 => Malformed::NameAndText,
            5 => Malformed::BadVersion,
            _ => Malformed::RootIsText,
        };
        let strict_xml = !t.chance(1, 25);
        let version = match t.weighted(&[4, 3, 2]) {
            0 => None,
            1 => Some("1.0".to_string()),
            _ => Some("1.1".to_string()),
        };
        let version = if malformed == Malformed::BadVersion {
            Some((*t.pick(&["2.0", "1", "", "1.2", "one"])).to_string())
        } else {
            version
        };
        let encoding = match t.weighted(&[4, 2, 2]) {
            0 => None,
            1 => Some("utf-8".to_string()),
            _ => Some("UTF-8".to_string()),
        };
        let standalone = match t.weighted(&[4, 2, 2]) {
            0 => None,
            1 => Some(true),
            _ => Some(false),
        };
        let mut scope = vec![];
        let mut bad = None;
        let root = self.gen_node(t, 1, &mut scope, &mut bad, strict_xml);
        let order = t.u64();
        Doc { order, version, encoding, standalone, root, malformed }
    }
}

fn node_to_json(n: &Node) -> J {
    use serde_json::json;
    match n {
        Node::Text(s) => json!({"text": s}),
        Node::TextTuple(s) => json!({"texttuple": s}),
        Node::Elem { name, ns, attrs, children } => json!({
            "name": name,
            "ns": ns.as_ref().map(|(p, u)| json!([p, u])),
            "attrs": attrs.as_ref().map(|a| a.iter().map(|(k, v)| json!([k, v])).collect::<Vec<_>>()),
            "children": children.as_ref().map(|c| c.iter().map(node_to_json).collect::<Vec<_>>()),
        }),
    }
}

fn node_from_json(j: &J) -> Option<Node> {
    if let Some(t) = j.get("text") {
        return Some(Node::Text(t.as_str()?.to_string()));
    }
    if let Some(t) = j.get("texttuple") {
        return Some(Node::TextTuple(t.as_str()?.to_string()));
    }
    let name = j.get("name")?.as_str()?.to_string();
    let ns = match j.get("ns") {
        Some(J::Array(a)) => Some((a.get(0)?.as_str()?.to_string(), a.get(1)?.as_str()?.to_string())),
        _ => None,
    };
    let attrs = match j.get("attrs") {
        Some(J::Array(a)) => {
            let mut out = vec![];
            for kv in a {
                out.push((kv.get(0)?.as_str()?.to_string(), kv.get(1).and_then(|v| v.as_str()).map(|s| s.to_string())));
            }
            Some(out)
        }
        _ => None,
    };
    let children = match j.get("children") {
        Some(J::Array(a)) => Some(a.iter().map(node_from_json).collect::<Option<Vec<_>>>()?),
        _ => None,
    };
    Some(Node::Elem { name, ns, attrs, children })
}

fn doc_to_json(d: &Doc) -> J {
    serde_json::json!({
        "order": d.order.to_string(), "version": d.version, "encoding": d.encoding, "standalone": d.standalone,
        "malformed": format!("{:?}", d.malformed), "root": node_to_json(&d.root),
    })
}

fn doc_from_json(j: &J) -> Option<Doc> {
    let malformed = match j.get("malformed")?.as_str()? {
        "None" => Malformed::None,
        "NoRoot" => Malformed::NoRoot,
        "NotTupleDoc" => Malformed::NotTupleDoc,
        "NodeNotTupleOrString" => Malformed::NodeNotTupleOrString,
        "NameAndText" => Malformed::NameAndText,
        "BadVersion" => Malformed::BadVersion,
        _ => Malformed::RootIsText,
    };
    Some(Doc {
        order: j.get("order").and_then(|o| o.as_str()).and_then(|s| s.parse().ok()).unwrap_or(0),
        version: j.get("version").and_then(|v| v.as_str()).map(|s| s.to_string()),
        encoding: j.get("encoding").and_then(|v| v.as_str()).map(|s| s.to_string()),
        standalone: j.get("standalone").and_then(|v| v.as_bool()),
        root: node_from_json(j.get("root")?)?,
        malformed,
    })
}

fn node_to_gval(n: &Node, inject: &mut Option<Malformed>, order: &mut u64) -> GVal {
    // xorshift: a different field order at every node, fixed by the document's seed
    *order ^= *order << 13;
    *order ^= *order >> 7;
    *order ^= *order << 17;
    let rot = *order;
    match n {
        Node::Text(s) => GVal::Str(s.clone()),
        Node::TextTuple(s) => GVal::Tuple(vec![("text".into(), GVal::Str(s.clone()))]),
        Node::Elem { name, ns, attrs, children } => {
            let mut fs: Vec<(String, GVal)> = vec![("name".into(), GVal::Str(name.clone()))];
            if let Some((p, u)) = ns {
                if p.is_empty() {
                    fs.push(("ns".into(), GVal::Str(u.clone())));
                } else {
                    fs.push((
                        "ns".into(),
                        GVal::Tuple(vec![("prefix".into(), GVal::Str(p.clone())), ("uri".into(), GVal::Str(u.clone()))]),
                    ));
                }
            }
            match attrs {
                None => fs.push(("attrs".into(), GVal::Null)),
                Some(a) => {
                    if !a.is_empty() || true {
                        fs.push((
                            "attrs".into(),
                            GVal::Tuple(
                                a.iter()
                                    .map(|(k, v)| (k.clone(), v.clone().map(GVal::Str).unwrap_or(GVal::Null)))
                                    .collect(),
                            ),
                        ));
                    }
                }
            }
            match children {
                None => fs.push(("children".into(), GVal::Null)),
                Some(c) => {
                    let mut items: Vec<GVal> = c.iter().map(|x| node_to_gval(x, inject, order)).collect();
                    match inject {
                        Some(Malformed::NodeNotTupleOrString) => {
                            items.push(GVal::Int(7));
                            *inject = None;
                        }
                        Some(Malformed::NameAndText) => {
                            let mut both = vec![
                                ("name".to_string(), GVal::Str("both".into())),
                                ("text".to_string(), GVal::Str("t".into())),
                            ];
                            if rot & 1 == 1 {
                                both.reverse();
                            }
                            items.push(GVal::Tuple(both));
                            *inject = None;
                        }
                        _ => {}
                    }
                    fs.push(("children".into(), GVal::List(items)));
                }
            }
            if rot != 0 {
                let k = (rot % fs.len() as u64) as usize;
                fs.rotate_left(k);
                if (rot >> 8) & 1 == 1 {
                    fs.reverse();
                }
            }
            GVal::Tuple(fs)
        }
    }
}

fn doc_to_gval(d: &Doc) -> GVal {
    let mut fs: Vec<(String, GVal)> = vec![];
    if let Some(v) = &d.version {
        fs.push(("version".into(), GVal::Str(v.clone())));
    }
    if let Some(e) = &d.encoding {
        fs.push(("encoding".into(), GVal::Str(e.clone())));
    }
    if let Some(s) = d.standalone {
        fs.push(("standalone".into(), GVal::Bool(s)));
    }
    let mut inject = match d.malformed {
        Malformed::NodeNotTupleOrString | Malformed::NameAndText => Some(d.malformed.clone()),
        _ => None,
    };
    let mut order = d.order;
    let mut root = node_to_gval(&d.root, &mut inject, &mut order);
    if inject.is_some() {
        // no children list took the injection: put it at the root
        root = match d.malformed {
            Malformed::NodeNotTupleOrString => GVal::Int(7),
            _ => {
                let mut both = vec![("name".to_string(), GVal::Str("both".into())), ("text".to_string(), GVal::Str("t".into()))];
                if d.order & 1 == 1 {
                    both.reverse();
                }
                GVal::Tuple(both)
            }
        };
    }
    match d.malformed {
        Malformed::NoRoot => {}
        Malformed::RootIsText => fs.push(("root".into(), GVal::Str("just text".into()))),
        _ => fs.push(("root".into(), root)),
    }
    if d.malformed == Malformed::NotTupleDoc {
        return GVal::List(vec![GVal::Tuple(fs)]);
    }
    GVal::Tuple(fs)
}

/// expected children after merging text and dropping empty text
#[derive(Debug, Clone, PartialEq)]
enum XNode {
    Elem(String, Vec<(String, String)>, Vec<(String, String)>, Vec<XNode>), // name, ns decls (attr name, uri), attrs, children
    Text(String),
}

fn expected_tree(n: &Node) -> Option<XNode> {
    match n {
        Node::Text(s) | Node::TextTuple(s) => {
            if s.is_empty() {
                None
            } else {
                Some(XNode::Text(s.clone()))
            }
        }
        Node::Elem { name, ns, attrs, children } => {
            let decls = match ns {
                Some((p, u)) if p.is_empty() => vec![("xmlns".to_string(), u.clone())],
                Some((p, u)) => vec![(format!("xmlns:{}", p), u.clone())],
                None => vec![],
            };
            let mut at: Vec<(String, String)> = attrs
                .as_ref()
                .map(|a| a.iter().filter_map(|(k, v)| v.clone().map(|v| (k.clone(), v))).collect())
                .unwrap_or_default();
            // a default namespace declared as an ordinary attribute is a declaration all the same
            let mut decls = decls;
            if let Some(i) = at.iter().position(|(k, _)| k == "xmlns") {
                let (k, v) = at.remove(i);
                decls.push((k, v));
            }
            let mut ch: Vec<XNode> = vec![];
            for c in children.as_deref().unwrap_or(&[]) {
                if let Some(x) = expected_tree(c) {
                    match (ch.last_mut(), &x) {
                        (Some(XNode::Text(prev)), XNode::Text(more)) => prev.push_str(more),
                        _ => ch.push(x),
                    }
                }
            }
            Some(XNode::Elem(name.clone(), decls, at, ch))
        }
    }
}

/// Text equality modulo XML 1.0 §2.11 line-end normalisation: every CR LF pair
/// or lone CR of the described text may arrive as LF (when the writer left it
/// raw) or unchanged (when it wrote a character reference).
fn text_matches(want: &str, got: &str) -> bool {
    let w: Vec<char> = want.chars().collect();
    let g: Vec<char> = got.chars().collect();
    fn go(w: &[char], g: &[char]) -> bool {
        match (w.first(), g.first()) {
            (None, None) => true,
            (Some('\r'), Some(gc)) => {
                // CR kept
                (*gc == '\r' && go(&w[1..], &g[1..]))
                    // CR LF -> LF
                    || (w.get(1) == Some(&'\n') && *gc == '\n' && go(&w[2..], &g[1..]))
                    // lone CR -> LF
                    || (*gc == '\n' && go(&w[1..], &g[1..]))
            }
            (Some(wc), Some(gc)) if wc == gc => go(&w[1..], &g[1..]),
            _ => false,
        }
    }
    go(&w, &g)
}

/// Attribute equality modulo §3.3.3 normalisation: a literal TAB / LF / CR may
/// arrive as a blank (CR LF as one blank) or unchanged.
fn attr_matches(want: &str, got: &str) -> bool {
    let w: Vec<char> = want.chars().collect();
    let g: Vec<char> = got.chars().collect();
    fn go(w: &[char], g: &[char]) -> bool {
        match (w.first(), g.first()) {
            (None, None) => true,
            (Some(wc), Some(gc)) if matches!(wc, '\t' | '\n' | '\r') => {
                (wc == gc && go(&w[1..], &g[1..]))
                    || (*gc == ' ' && go(&w[1..], &g[1..]))
                    || (*wc == '\r' && w.get(1) == Some(&'\n') && (*gc == ' ' || *gc == '\n') && go(&w[2..], &g[1..]))
                    || (*wc == '\r' && *gc == '\n' && go(&w[1..], &g[1..]))
            }
            (Some(wc), Some(gc)) if wc == gc => go(&w[1..], &g[1..]),
            _ => false,
        }
    }
    go(&w, &g)
}

fn is_ws(s: &str) -> bool {
    s.chars().all(|c| c == ' ' || c == '\t' || c == '\n' || c == '\r')
}

fn compare(exp: &XNode, act: &J, path: &str, scope: &Vec<(String, String)>) -> Result<(), String> {
    match exp {
        XNode::Text(_) => Err(format!("at {}: internal: text compared as element", path)),
        XNode::Elem(name, decls, attrs, children) => {
            let aname = act.get("name").and_then(|n| n.as_str()).unwrap_or("");
            if aname != name {
                return Err(format!("at {}: element {:?} read back as {:?}", path, name, aname));
            }
            let here = format!("{}/{}", path, name);
            let mut adecl: Vec<(String, String)> = vec![];
            let mut aattr: Vec<(String, String)> = vec![];
            for kv in act.get("attrs").and_then(|a| a.as_array()).cloned().unwrap_or_default() {
                let k = kv[0].as_str().unwrap_or("").to_string();
                let v = kv[1].as_str().unwrap_or("").to_string();
                if k == "xmlns" || k.starts_with("xmlns:") {
                    adecl.push((k, v));
                } else {
                    aattr.push((k, v));
                }
            }
            // namespace declarations: the described one must be there; a repeated
            // declaration identical to a binding already in scope is harmless
            let mut scope2 = scope.clone();
            for (k, v) in decls {
                match adecl.iter().find(|(ak, _)| ak == k) {
                    Some((_, av)) if attr_matches(v, av) => {}
                    Some((_, av)) => return Err(format!("at {}: namespace {} = {:?} read back as {:?}", here, k, v, av)),
                    // the same binding is already in scope: repeating it is optional
                    None if scope.iter().any(|(sk, sv)| sk == k && sv == v) => {}
                    // xmlns="" where no default namespace is in scope says nothing
                    None if k == "xmlns" && v.is_empty() && !scope.iter().any(|(sk, sv)| sk == "xmlns" && !sv.is_empty()) => {}
                    None => return Err(format!("at {}: namespace declaration {}={:?} missing; found {:?}", here, k, v, adecl)),
                }
            }
            for (k, v) in &adecl {
                let described = decls.iter().any(|(dk, _)| dk == k);
                let inherited = scope.iter().any(|(sk, sv)| sk == k && attr_matches(sv, v));
                if !described && !inherited {
                    return Err(format!("at {}: undescribed namespace declaration {}={:?}", here, k, v));
                }
            }
            for (k, v) in decls {
                scope2.retain(|(sk, _)| sk != k);
                scope2.push((k.clone(), v.clone()));
            }
            if aattr.len() != attrs.len() {
                return Err(format!("at {}: attributes {:?} read back as {:?}", here, attrs, aattr));
            }
            for (k, v) in attrs {
                match aattr.iter().find(|(ak, _)| ak == k) {
                    Some((_, av)) if attr_matches(v, av) => {}
                    Some((_, av)) => return Err(format!("at {}: attribute {}={:?} read back as {:?}", here, k, v, av)),
                    None => return Err(format!("at {}: attribute {:?} missing; found {:?}", here, k, aattr)),
                }
            }
            // children
            let achildren = act.get("children").and_then(|c| c.as_array()).cloned().unwrap_or_default();
            let mut j = 0usize;
            for (i, e) in children.iter().enumerate() {
                // skip indentation the emitter put between two tags
                loop {
                    match achildren.get(j) {
                        Some(a) if a.get("t").and_then(|t| t.as_str()) == Some("text")
                            && is_ws(a.get("v").and_then(|v| v.as_str()).unwrap_or(""))
                            && !matches!(e, XNode::Text(_)) => j += 1,
                        _ => break,
                    }
                }
                let a = match achildren.get(j) {
                    Some(a) => a,
                    None => return Err(format!("at {}: child #{} ({}) missing from the output", here, i, short(e))),
                };
                j += 1;
                match e {
                    XNode::Text(s) => {
                        if a.get("t").and_then(|t| t.as_str()) != Some("text") {
                            return Err(format!("at {}: text {:?} read back as {}", here, s, a));
                        }
                        let av = a.get("v").and_then(|v| v.as_str()).unwrap_or("");
                        if !text_matches(s, av) {
                            return Err(format!("at {}: text {:?} read back as {:?}", here, s, av));
                        }
                    }
                    XNode::Elem(..) => {
                        if a.get("t").and_then(|t| t.as_str()) != Some("elem") {
                            return Err(format!("at {}: element {} read back as {}", here, short(e), a));
                        }
                        compare(e, a, &here, &scope2)?;
                    }
                }
            }
            while let Some(a) = achildren.get(j) {
                if a.get("t").and_then(|t| t.as_str()) == Some("text") && is_ws(a.get("v").and_then(|v| v.as_str()).unwrap_or("")) {
                    j += 1;
                } else {
                    return Err(format!("at {}: extra node in the output: {}", here, a));
                }
            }
            Ok(())
        }
    }
}

fn short(x: &XNode) -> String {
    match x {
        XNode::Text(s) => format!("text {:?}", s),
        XNode::Elem(n, ..) => format!("<{}>", n),
    }
}

fn has_non_xml_char(n: &Node) -> bool {
    fn bad(s: &str) -> bool {
        s.chars().any(|c| !is_xml_char(c))
    }
    match n {
        Node::Text(s) | Node::TextTuple(s) => bad(s),
        Node::Elem { attrs, children, .. } => {
            attrs.as_ref().map(|a| a.iter().any(|(_, v)| v.as_deref().map(bad).unwrap_or(false))).unwrap_or(false)
                || children.as_ref().map(|c| c.iter().any(has_non_xml_char)).unwrap_or(false)
        }
    }
}

fn depth(n: &Node) -> u32 {
    match n {
        Node::Elem { children, .. } => 1 + children.as_ref().map(|c| c.iter().map(depth).max().unwrap_or(0)).unwrap_or(0),
        _ => 0,
    }
}

fn has_markup(n: &Node) -> bool {
    fn m(s: &str) -> bool {
        s.contains(['<', '>', '&', '\'', '"'])
    }
    match n {
        Node::Text(s) | Node::TextTuple(s) => m(s),
        Node::Elem { attrs, children, ns, .. } => {
            ns.is_some()
                || attrs.as_ref().map(|a| a.iter().any(|(_, v)| v.as_deref().map(m).unwrap_or(false))).unwrap_or(false)
                || children.as_ref().map(|c| c.iter().any(has_markup)).unwrap_or(false)
        }
    }
}

/// second opinion: xml-rs's reader accepts the text
fn xmlrs_accepts(bytes: &[u8]) -> bool {
    let r = xml::reader::EventReader::new(bytes);
    for ev in r {
        if ev.is_err() {
            return false;
        }
    }
    true
}

impl Property for C12 {
    fn id(&self) -> &'static str {
        "C12"
    }
    fn rule(&self) -> String {
        "generated document tuples (element trees to depth 4, 0..4 children mixing elements, bare strings and {text=} nodes; ASCII and non-ASCII names, prefixes declared by ns; attribute values and text over XML Char incl. < > & ' \" ]]> blanks CR LF; version/encoding/standalone; default and prefixed namespaces with markup characters in the URI; NULL attrs/children; one malformed document kind in ~1 of 8) converted by the xml converter and parsed by expat; the parsed tree must equal the described tree. Non-trivial: depth >= 3, a markup-significant character in text/attribute/URI, a namespace, or a malformed document; distinct by rendered document.".into()
    }
    fn assumptions(&self) -> Vec<String> {
        vec![
            "expat (Python xml.parsers.expat) is the meaning of 'well-formed' and of the parsed tree; a prefix-declaration check is added on top".into(),
            "unobservable in XML and tolerated: line-end normalisation in text, attribute-value normalisation of literal TAB/LF/CR, whitespace-only text between two tags where no text was described (emitter indentation), a repeated namespace declaration identical to one in scope".into(),
            "encodings other than UTF-8 are not generated".into(),
        ]
    }
    fn budget(&self, tier: Tier) -> Budget {
        Budget {
            cases: match tier {
                Tier::Quick => 40_000,
                Tier::Thorough => 600_000,
            },
            tape_min: 2,
            tape_max: 300,
        }
    }
    fn run_tape(&mut self, words: &[u32]) -> Outcome {
        if self.py.is_none() {
            self.py = Some(PyOracle::start().unwrap_or_else(|e| panic!("harness: cannot start decoder service: {}", e)));
        }
        let mut t = Tape::new(words);
        let doc = self.gen_doc(&mut t);
        let in_program = t.chance(1, 8);
        self.check_doc(&doc, in_program)
    }
    fn run_text(&mut self, text: &str) -> Outcome {
        if self.py.is_none() {
            self.py = Some(PyOracle::start().unwrap_or_else(|e| panic!("harness: cannot start decoder service: {}", e)));
        }
        let j: J = serde_json::from_str(text).expect("replay text is JSON");
        let doc = doc_from_json(&j).expect("document encoding");
        self.check_doc(&doc, true)
    }
}

impl C12 {
    fn check_doc(&mut self, doc: &Doc, in_program: bool) -> Outcome {
        let gv = doc_to_gval(doc);
        let rendered = format!("xml <- {}", gv.show());
        let mut o = Outcome::pass(rendered.clone());
        o.key = fnv(rendered.as_bytes());
        o.portable = Some(doc_to_json(doc).to_string());
        let nonxml = has_non_xml_char(&doc.root);
        o.nontrivial = depth(&doc.root) >= 3 || has_markup(&doc.root) || doc.malformed != Malformed::None;
        if doc.malformed != Malformed::None {
            o.class(&format!("malformed-{:?}", doc.malformed));
        } else {
            o.class("well-formed-input");
        }
        if nonxml {
            o.class("non-xml-char");
        }
        let conv = self.reg.get_converter("xml").expect("xml converter");
        let mut buf: Vec<u8> = vec![];
        let res = conv.convert(gv.to_val(), &mut buf);
        let text = String::from_utf8_lossy(&buf).into_owned();
        if doc.malformed != Malformed::None {
            if res.is_ok() {
                o.fail(&format!("C12/malformed-accepted-{:?}", doc.malformed), format!("a document the DSL cannot express ({:?}) was converted without error\n{}\noutput:\n{}", doc.malformed, rendered, text));
            }
            return o;
        }
        if nonxml {
            // no well-formed XML 1.0 document can hold these characters: an error is the only sound answer
            if res.is_ok() {
                match self.py.as_mut().unwrap().decode("xml", &buf) {
                    Ok(Err(e)) => o.fail("C12/non-xml-char-written", format!("text with a character XML cannot hold was written instead of reported; the output is not well-formed ({})\n{}\noutput:\n{}", e, rendered, text)),
                    Ok(Ok(_)) => {}
                    Err(e) => panic!("harness: decoder service failed: {}", e),
                }
            }
            return o;
        }
        if let Err(e) = res {
            o.fail("C12/valid-document-rejected", format!("a valid document tuple was rejected: {}\n{}", e, rendered));
            return o;
        }
        let parsed = match self.py.as_mut().unwrap().decode("xml", &buf) {
            Ok(p) => p,
            Err(e) => panic!("harness: decoder service failed: {}", e),
        };
        match parsed {
            Err(e) => {
                if doc.version.as_deref() == Some("1.1") && xmlrs_accepts(&buf) && e.contains("XML declaration") {
                    o.class("decoder-limitation");
                } else {
                    o.fail("C12/not-well-formed", format!("the output is not well-formed: {}\n{}\noutput:\n{}", e, rendered, text));
                }
            }
            Ok(tree) => {
                // declaration
                let decl = tree.get("decl").cloned().unwrap_or(J::Null);
                let want_version = doc.version.clone().unwrap_or_else(|| "1.0".into());
                if decl.get("version").and_then(|v| v.as_str()) != Some(want_version.as_str()) {
                    o.fail("C12/declaration", format!("version {:?} described, declaration says {}\n{}\noutput:\n{}", doc.version, decl, rendered, text));
                }
                if let Some(enc) = &doc.encoding {
                    let got = decl.get("encoding").and_then(|v| v.as_str()).unwrap_or("");
                    if !got.eq_ignore_ascii_case(enc) {
                        o.fail("C12/declaration", format!("encoding {:?} described, declaration says {}\n{}", enc, decl, rendered));
                    }
                }
                if let Some(sa) = doc.standalone {
                    let got = decl.get("standalone").and_then(|v| v.as_i64()).unwrap_or(-1);
                    if got != if sa { 1 } else { 0 } {
                        o.fail("C12/declaration", format!("standalone {} described, declaration says {}\n{}", sa, decl, rendered));
                    }
                }
                let exp = expected_tree(&doc.root).expect("root is an element");
                if let Err(why) = compare(&exp, tree.get("root").unwrap_or(&J::Null), "", &vec![]) {
                    o.fail("C12/tree-differs", format!("{}\n{}\noutput:\n{}", why, rendered, text));
                }
            }
        }
        // the same document through an evaluated program, 1 in 8
        if !o.is_fail() && in_program {
            if let Some(lit) = gv.to_ucg() {
                o.class("in-program");
                self.ucg.reset();
                match self.ucg.eval(&format!("let c = convert xml {};", lit), true) {
                    Ok(v) => {
                        let c = match v.as_ref() {
                            Val::Tuple(fs) => fs.iter().find(|(k, _)| k.as_ref() == "c").map(|(_, v)| v.clone()),
                            _ => None,
                        };
                        match c.as_deref() {
                            Some(Val::Str(s)) if s.as_bytes() == &buf[..] => {}
                            other => o.fail("C12/convert-expr-differs", format!("`convert xml` in a program gives different text than the converter\nprogram value: {:?}\nconverter: {}", other, text)),
                        }
                    }
                    Err(e) => o.fail("C12/convert-expr-fails", format!("`convert xml` fails in a program: {}\n{}", e, rendered)),
                }
            }
        }
        o
    }
}
