//! C17 — syntax and evaluation errors point at the statement that causes them.
//!
//! Oracle: validity predicate over recorded spans.  Valid multi-line programs
//! get exactly one injected fault; the diagnostic's primary (line, column) must
//! lie inside the span of the faulty statement (for a fault in a function body:
//! the defining statement, with a VIA line inside the calling statement);
//! inserting k lines before shifts the line by exactly k, inserting after
//! changes nothing.

use crate::core::*;
use crate::tape::{fnv, Tape};
use crate::ucgrun::Ucg;

pub struct C17 {
    ucg: Ucg,
}

#[derive(Clone, Debug, serde::Serialize, serde::Deserialize)]
struct Stmt {
    /// lines of the statement; `@SLOTn@` marks int-typed expression slots
    lines: Vec<String>,
    slots: usize,
    /// this statement defines function f<id> whose body holds slot 0
    defines_func: Option<usize>,
    /// this statement calls function f<id>
    calls_func: Option<usize>,
    /// this statement defines module n<id> / instantiates it
    #[serde(default)]
    defines_mod: Option<usize>,
    #[serde(default)]
    calls_mod: Option<usize>,
}

#[derive(Clone, Debug, serde::Serialize, serde::Deserialize)]
struct Case {
    stmts: Vec<Stmt>,
    fault_stmt: usize,
    fault_slot: usize,
    fault: String,
    fault_kind: String,
    syntax: bool,
    before: usize,
    after: usize,
}

const FAULTS: [(&str, &str, bool); 22] = [
    ("unknown-name", "no_such_name", false),
    ("type-mismatch", "idf(1) + idf(\"s\")", false),
    ("missing-field", "{a = 1}.b", false),
    ("missing-index", "[1, 2].5", false),
    ("unhandled-select", "select (\"zz\") => {a = 1}", false),
    ("failed-cast", "int(\"x\")", false),
    // the outer cast keeps the slot an int for the static checker; the inner cast fails at run time
    ("failed-cast-to-float-inside-cast", "int(float(\"x\"))", false),
    ("failed-cast-to-bool-inside-cast", "int(bool(\"maybe\"))", false),
    ("fail-expression", "fail \"boom\"", false),
    ("static-type-mismatch", "1 + \"s\"", false),
    ("division-by-zero", "1 / (2 - 2)", false),
    ("call-of-non-function", "vzero(1)", false),
    ("static-type-mismatch-through-symbol", "1 + vstr", false),
    ("missing-field-through-symbol", "vtup.nope", false),
    ("bad-argument-count", "idf(1, 2)", false),
    ("wrong-argument-type", "addone(\"s\")", false),
    ("wrong-argument-type-through-symbol", "addone(vstr)", false),
    ("missing-field-of-select-result", "vsel.nope", false),
    ("syntax-bad-character", "1 # 2", true),
    ("syntax-adjacent-operators", "1 + * 2", true),
    ("syntax-missing-operand", "(1 + )", true),
    ("syntax-stray-bracket", "1 ] + 2", true),
];

fn gen_stmt(t: &mut Tape, i: usize, funcs: &[usize], mods: &[usize], ones: &[usize], lsts: &[usize]) -> Stmt {
    let pad = |t: &mut Tape| " ".repeat(2 + 2 * t.choice(3));
    match t.weighted(&[4, 3, 2, if funcs.is_empty() { 0 } else { 3 }, 2, 2, if funcs.is_empty() { 0 } else { 3 }, 2, 2, 2, 2, if mods.is_empty() { 0 } else { 3 }, if funcs.is_empty() { 0 } else { 3 }, 2, 2, if ones.is_empty() || lsts.is_empty() { 0 } else { 4 }]) {
        13 => {
            let p = pad(t);
            Stmt { lines: vec![format!("let g{} = func (e) =>", i), format!("{}e + 0", p), format!("{}+ @SLOT0@;", p)], slots: 1, defines_func: Some(1000 + i), calls_func: None, defines_mod: None, calls_mod: None }
        }
        14 => {
            // a list bound in a statement of its own
            let p = pad(t);
            Stmt { lines: vec![format!("let l{} = [", i), format!("{}1, @SLOT0@];", p)], slots: 1, defines_func: None, calls_func: None, defines_mod: Some(2000 + i), calls_mod: None }
        }
        15 => {
            // ... mapped / filtered by a named function in another statement
            let f = ones[t.choice(ones.len())];
            let l = lsts[t.choice(lsts.len())];
            let p = pad(t);
            let how = if t.chance(1, 2) { "map" } else { "filter" };
            Stmt { lines: vec![format!("let a{} = {}(g{},", i, how, f - 1000), format!("{}l{}) +", p, l - 2000), format!("{}[@SLOT0@];", p)], slots: 1, defines_func: None, calls_func: Some(f), defines_mod: None, calls_mod: None }
        }
        12 => {
            // the call is itself an argument of another call
            let f = funcs[t.choice(funcs.len())];
            let p = pad(t);
            Stmt { lines: vec![format!("let q{} = idf(", i), format!("{}f{}(@SLOT0@,", p, f), format!("{}  @SLOT1@) + 0);", p)], slots: 2, defines_func: None, calls_func: Some(f), defines_mod: None, calls_mod: None }
        }
        0 => {
            let p = pad(t);
            Stmt { lines: vec![format!("let v{} = {{", i), format!("{}a = @SLOT0@,", p), format!("{}b = [@SLOT1@,", p), format!("{}     @SLOT2@],", p), format!("{}c = \"text\",", p), "};".into()], slots: 3, defines_func: None, calls_func: None, defines_mod: None, calls_mod: None }
        }
        1 => {
            let p = pad(t);
            Stmt { lines: vec![format!("let s{} = select (\"x\", 0) => {{", i), format!("{}x = @SLOT0@,", p), format!("{}y = 2,", p), "};".into()], slots: 1, defines_func: None, calls_func: None, defines_mod: None, calls_mod: None }
        }
        2 => {
            let p = pad(t);
            Stmt { lines: vec![format!("let f{} = func (p, q) =>", i), format!("{}p + q", p), format!("{}+ @SLOT0@;", p)], slots: 1, defines_func: Some(i), calls_func: None, defines_mod: None, calls_mod: None }
        }
        3 => {
            let f = funcs[t.choice(funcs.len())];
            let p = pad(t);
            Stmt { lines: vec![format!("let r{} = f{}(", i, f), format!("{}@SLOT0@,", p), format!("{}@SLOT1@);", p)], slots: 2, defines_func: None, calls_func: Some(f), defines_mod: None, calls_mod: None }
        }
        4 => {
            let p = pad(t);
            Stmt { lines: vec![format!("let w{} =", i), format!("{}1 +", p), format!("{}@SLOT0@ +", p), format!("{}3;", p)], slots: 1, defines_func: None, calls_func: None, defines_mod: None, calls_mod: None }
        }
        7 => {
            let p = pad(t);
            Stmt { lines: vec![format!("let c{} = vtup{{", i), format!("{}extra = @SLOT0@,", p), format!("{}more = [@SLOT1@],", p), "};".into()], slots: 2, defines_func: None, calls_func: None, defines_mod: None, calls_mod: None }
        }
        8 => {
            let p = pad(t);
            Stmt { lines: vec![format!("let t{} = \"@-@\" % (", i), format!("{}@SLOT0@,", p), format!("{}@SLOT1@);", p)], slots: 2, defines_func: None, calls_func: None, defines_mod: None, calls_mod: None }
        }
        9 => {
            let p = pad(t);
            Stmt { lines: vec![format!("let n{} = module {{", i), format!("{}arg = @SLOT0@,", p), "} => (res) {".into(), format!("{}let res = mod.arg +", p), format!("{}  @SLOT1@;", p), "};".into()], slots: 2, defines_func: None, calls_func: None, defines_mod: Some(i), calls_mod: None }
        }
        11 => {
            let m = mods[t.choice(mods.len())];
            let p = pad(t);
            Stmt { lines: vec![format!("let i{} = n{}{{", i, m), format!("{}arg = @SLOT0@,", p), "};".into()], slots: 1, defines_func: None, calls_func: None, defines_mod: None, calls_mod: Some(m) }
        }
        10 => {
            let p = pad(t);
            Stmt { lines: vec![format!("let g{} = select (\"nope\",", i), format!("{}@SLOT0@) => {{", p), format!("{}x = 1,", p), "} + select (1 ==".into(), format!("{}@SLOT1@, 5) => {{", p), format!("{}true = 7,", p), "};".into()], slots: 2, defines_func: None, calls_func: None, defines_mod: None, calls_mod: None }
        }
        6 => {
            // the function is applied by a builtin, not called directly
            let f = funcs[t.choice(funcs.len())];
            let p = pad(t);
            Stmt { lines: vec![format!("let d{} = reduce(f{},", i, f), format!("{}@SLOT0@,", p), format!("{}[1, @SLOT1@]);", p)], slots: 2, defines_func: None, calls_func: Some(f), defines_mod: None, calls_mod: None }
        }
        _ => {
            let p = pad(t);
            Stmt { lines: vec![format!("let m{} = map(func (e) => e + @SLOT0@,", i), format!("{}[1, 2,", p), format!("{} @SLOT1@]);", p)], slots: 2, defines_func: None, calls_func: None, defines_mod: None, calls_mod: None }
        }
    }
}

const PRELUDE: &str = "let idf = func (a) => a;\nlet vzero = 0;\nlet vstr = \"s\";\nlet vtup = {here = 1};\nlet addone = func (n) => n + 1;\nlet vsel = select (\"a\", {x = 1}) => {a = {y = 1}};\n";

struct Rendered {
    text: String,
    /// (first line, last line, last column) per statement, 1-based
    spans: Vec<(usize, usize, usize)>,
}

fn render(c: &Case, before: usize, after: usize) -> Rendered {
    let mut text = String::from(PRELUDE);
    let mut line = 1 + PRELUDE.matches('\n').count();
    for k in 0..before {
        text.push_str(&format!("let pad_before_{} = {};\n", k, k));
        line += 1;
    }
    let mut spans = vec![];
    for (i, s) in c.stmts.iter().enumerate() {
        let first = line;
        let mut last_col = 1;
        for l in &s.lines {
            let mut l = l.clone();
            for k in 0..s.slots {
                let filler = if i == c.fault_stmt && k == c.fault_slot { c.fault.clone() } else { format!("{}", 1 + k) };
                l = l.replace(&format!("@SLOT{}@", k), &filler);
            }
            last_col = l.rsplit('\n').next().unwrap().len();
            line += 1 + l.matches('\n').count();
            text.push_str(&l);
            text.push('\n');
        }
        spans.push((first, line - 1, last_col));
    }
    for k in 0..after {
        text.push_str(&format!("let pad_after_{} = {};\n", k, k));
    }
    Rendered { text, spans }
}

/// all (line, column) pairs of a diagnostic, in order; VIA entries flagged
fn positions(msg: &str) -> Vec<(usize, usize, bool)> {
    let mut out = vec![];
    for l in msg.lines() {
        let via = l.trim_start().starts_with("VIA");
        let mut rest = l;
        while let Some(i) = rest.find("line: ") {
            let after = &rest[i + 6..];
            let num: String = after.chars().take_while(|c| c.is_ascii_digit()).collect();
            let after2 = &after[num.len()..];
            if let Some(j) = after2.find("column: ") {
                let col: String = after2[j + 8..].chars().take_while(|c| c.is_ascii_digit()).collect();
                if let (Ok(n), Ok(m)) = (num.parse::<usize>(), col.parse::<usize>()) {
                    out.push((n, m, via));
                }
                rest = &after2[j + 8..];
            } else {
                break;
            }
        }
    }
    out
}

impl C17 {
    pub fn new(_tier: Tier) -> Self {
        C17 { ucg: Ucg::new() }
    }

    fn eval(&mut self, src: &str) -> Result<(), String> {
        self.ucg.reset();
        let ucg = &self.ucg;
        match catch(std::panic::AssertUnwindSafe(|| ucg.eval(src, true))) {
            Ok(r) => r.map(|_| ()),
            Err(pi) => {
                self.ucg.poison();
                Err(format!("panic: {} at {}", pi.msg, pi.loc))
            }
        }
    }

    fn build(&mut self, src: &str) -> Result<(), String> {
        self.ucg.reset();
        let (file, r) = {
            let u = &mut self.ucg;
            match catch(std::panic::AssertUnwindSafe(|| u.build_src(src, true))) {
                Ok((p, r)) => (Some(p), r),
                Err(pi) => {
                    u.poison();
                    (None, Err(format!("panic: {} at {}", pi.msg, pi.loc)))
                }
            }
        };
        if let Some(f) = &file {
            self.ucg.cleanup_case_dir(f);
        }
        r.map(|_| ())
    }

    fn check_case(&mut self, c: &Case) -> Outcome {
        let base = render(c, c.before, 0);
        let rendered = format!("[fault: {} `{}` in statement {} slot {}]\n{}", c.fault_kind, c.fault, c.fault_stmt + 1, c.fault_slot, base.text);
        let mut o = Outcome::pass(rendered.clone());
        o.key = fnv(rendered.as_bytes());
        o.portable = Some(serde_json::to_string(c).unwrap());
        o.class(&c.fault_kind);
        let fs = &c.stmts[c.fault_stmt];
        let in_func = fs.defines_func.is_some();
        // a fault inside a function body only shows when the function is called
        let caller = if in_func { c.stmts.iter().position(|s| s.calls_func == fs.defines_func) } else { None };
        if in_func && caller.is_none() && !c.syntax {
            o.verdict = Verdict::Discard("the faulty function is never called".into());
            return o;
        }
        if in_func {
            o.class("fault-in-function-body");
        }
        // likewise a module body is evaluated only when the module is instantiated
        if fs.defines_mod.map(|m| m < 2000).unwrap_or(false) {
            if !c.syntax && !c.stmts.iter().any(|s| s.calls_mod == fs.defines_mod) {
                o.verdict = Verdict::Discard("the faulty module is never instantiated".into());
                return o;
            }
            o.class("fault-in-module-definition");
        }
        // the fault must be the first thing that goes wrong: the program without it is valid
        let clean = Case { fault: "1".into(), ..c.clone() };
        let clean_text = render(&clean, c.before, 0).text;
        if let Err(e) = self.eval(&clean_text) {
            panic!("harness: the program without the fault does not evaluate: {}\n{}", e, clean_text);
        }
        let (span_first, span_last, span_last_col) = base.spans[c.fault_stmt];
        o.nontrivial = c.fault_stmt > 0 || c.fault_slot > 0;
        for (path, what) in [(0, "eval_string"), (1, "file build")] {
            let r = if path == 0 { self.eval(&base.text) } else { self.build(&base.text) };
            let msg = match r {
                Ok(()) => {
                    o.fail("C17/fault-not-reported", format!("the program with the fault builds [{}]\n{}", what, rendered));
                    return o;
                }
                Err(m) => m,
            };
            if msg.starts_with("panic") {
                o.verdict = Verdict::Discard("the fault makes the implementation panic (C04)".into());
                return o;
            }
            if c.fault_kind.starts_with("wrong-argument-type") && !msg.contains("Type error") {
                // without the checker the value fails inside the callee: whether that or the
                // call is "the fault" is not for this check to decide
                o.class("wrong-argument-reported-at-run-time");
                continue;
            }
            let pos = positions(&msg);
            let primary = match pos.iter().find(|p| !p.2) {
                Some(p) => *p,
                None => {
                    o.fail(&format!("C17/no-position:{}", c.fault_kind), format!("the diagnostic carries no line/column [{}]: {}\n{}", what, msg, rendered));
                    return o;
                }
            };
            let inside = |p: (usize, usize, bool), first: usize, last: usize, last_col: usize| p.0 >= first && p.0 <= last && !(p.0 == last && p.1 > last_col + 1) && p.1 >= 1;
            let kind_sig = if in_func { format!("{}:in-function", c.fault_kind) } else { c.fault_kind.clone() };
            if !inside(primary, span_first, span_last, span_last_col) {
                o.fail(&format!("C17/primary-position-outside-statement:{}:{}", kind_sig, what.replace(' ', "-")), format!("the fault is in statement {} (lines {}..{}) but the diagnostic's primary position is line {} column {} [{}]\ndiagnostic: {}\n{}", c.fault_stmt + 1, span_first, span_last, primary.0, primary.1, what, msg.lines().take(6).collect::<Vec<_>>().join(" | "), rendered));
                return o;
            }
            // the static checker finds a fault at the definition without any call: no call site to list
            let from_checker = msg.contains("Type error");
            if from_checker {
                o.class("reported-by-static-checker");
            }
            if let (true, Some(ci), false, false) = (in_func, caller, c.syntax, from_checker) {
                let (cf, cl, cc) = base.spans[ci];
                if !pos.iter().any(|p| p.2 && inside(*p, cf, cl, cc)) {
                    o.fail(&format!("C17/calling-statement-not-listed:{}:{}", c.fault_kind, what.replace(' ', "-")), format!("the fault is inside a function body; the diagnostic should also list the calling statement {} (lines {}..{}) [{}]\ndiagnostic: {}\n{}", ci + 1, cf, cl, what, msg.lines().take(8).collect::<Vec<_>>().join(" | "), rendered));
                    return o;
                }
            }
            // shift invariance
            for (db, da) in [(1usize, 0usize), (3, 0), (0, 2)] {
                let shifted = render(c, c.before + db, da);
                let r2 = if path == 0 { self.eval(&shifted.text) } else { self.build(&shifted.text) };
                let m2 = match r2 {
                    Err(m) => m,
                    Ok(()) => {
                        o.fail("C17/fault-not-reported", format!("the program with the fault builds after inserting unrelated statements [{}]\n{}", what, shifted.text));
                        return o;
                    }
                };
                let p2 = positions(&m2);
                match p2.iter().find(|p| !p.2) {
                    Some(q) if q.0 == primary.0 + db && q.1 == primary.1 => {}
                    other => {
                        o.fail(&format!("C17/position-moves:{}:{}", kind_sig, what.replace(' ', "-")), format!("after inserting {} line(s) before and {} after, the position should move from line {} column {} to line {} column {} but is {:?} [{}]\n{}", db, da, primary.0, primary.1, primary.0 + db, primary.1, other.map(|q| (q.0, q.1)), what, rendered));
                        return o;
                    }
                }
            }
        }
        o
    }
}

impl Property for C17 {
    fn id(&self) -> &'static str {
        "C17"
    }
    fn rule(&self) -> String {
        "valid programs of 3..12 multi-line statements (tuple literals, select with and without default, function definitions, direct calls, functions applied through reduce, arithmetic chains, map with a callback, copy expressions, format expressions, module definitions and instantiations; random indentation; the fault optionally buried under 1..2 more nesting levels that may span lines) with exactly one fault injected into one expression slot: unknown name, run-time type mismatch, static type mismatch (literal and through a symbol defined elsewhere), wrong argument count, missing field (literal and through a symbol), missing index, unhandled select case, failed cast (to int; to float and to bool inside an int cast), fail, division by zero, call of a non-function, and four syntax faults that cannot extend the statement (bad character, adjacent operators, missing operand, stray bracket); at every statement and nesting position (tuple field, list element, call argument, function body, select arm, callback). The program without the fault must evaluate (harness self-check). Through eval_string and through a file build the diagnostic's primary line/column must lie inside the faulty statement's span, a fault in a function body must also list the calling statement in a VIA line, and inserting 1 or 3 lines before / 2 after must shift the line by exactly that much / not at all. Non-trivial: the fault is not in the first statement or not in its first slot; distinct by program.".into()
    }
    fn assumptions(&self) -> Vec<String> {
        vec![
            "the primary position is the first line/column pair of the diagnostic that is not on a VIA line".into(),
            "faults inside lazily skipped code and inside @{..} format templates are not injected".into(),
        ]
    }
    fn budget(&self, tier: Tier) -> Budget {
        Budget {
            cases: match tier {
                Tier::Quick => 16_000,
                Tier::Thorough => 150_000,
            },
            tape_min: 6,
            tape_max: 120,
        }
    }
    fn run_tape(&mut self, words: &[u32]) -> Outcome {
        let mut t = Tape::new(words);
        let n = 3 + t.choice(10);
        let mut stmts = vec![];
        let mut funcs: Vec<usize> = vec![];
        let mut mods: Vec<usize> = vec![];
        let mut ones: Vec<usize> = vec![];
        let mut lsts: Vec<usize> = vec![];
        for i in 0..n {
            let s = gen_stmt(&mut t, i, &funcs, &mods, &ones, &lsts);
            match s.defines_func {
                Some(f) if f >= 1000 => ones.push(f),
                Some(f) => funcs.push(f),
                None => {}
            }
            match s.defines_mod {
                Some(m) if m >= 2000 => lsts.push(m),
                Some(m) => mods.push(m),
                None => {}
            }
            stmts.push(s);
        }
        let fault_stmt = t.choice(stmts.len());
        let fault_slot = t.choice(stmts[fault_stmt].slots);
        let (kind, text, syntax) = FAULTS[t.choice(FAULTS.len())];
        let mut text = text.to_string();
        // bury the fault under 0..2 further nesting levels, possibly across lines
        for _ in 0..t.weighted(&[3, 3, 2]) {
            text = match t.choice(7) {
                0 => format!("(2 * ({}))", text),
                1 => format!("[0, {}].1", text),
                2 => format!("{{k = {}}}.k", text),
                3 => format!("idf({})", text),
                4 => format!("idf(\n        {})", text),
                5 => format!("[0,\n    {},\n  2].1", text),
                _ => format!("{{k = 0,\n j = {}\n   }}.j", text),
            };
        }
        let c = Case { stmts, fault_stmt, fault_slot, fault: text, fault_kind: kind.to_string(), syntax, before: t.choice(3), after: 0 };
        self.check_case(&c)
    }
    fn run_text(&mut self, text: &str) -> Outcome {
        let c: Case = serde_json::from_str(text).expect("replay text is a case");
        self.check_case(&c)
    }
}
