//! C06 — a `::` constraint on a binding admits exactly the conforming values.
//!
//! Oracle: the conformance predicate written from the property text; inline,
//! named and let-bound forms of one constraint must agree (metamorphic).

use crate::core::*;
use crate::gval::GVal;
use crate::tape::{fnv, Tape};
use crate::ucgrun::Ucg;

pub struct C06 {
    ucg: Ucg,
}

#[derive(Clone, Debug, PartialEq)]
enum Shape {
    Int,
    Float,
    Str,
    Bool,
    Null,
    Tuple(Vec<(String, Shape)>),
    /// distinct element shapes
    List(Vec<Shape>),
}

#[derive(Clone, Debug)]
enum Arm {
    Lit(GVal),
    IntRange(Option<i64>, Option<i64>),
    FloatRange(Option<f64>, Option<f64>),
}

#[derive(Clone, Debug)]
enum Constraint {
    Exemplar(GVal),
    Arms(Vec<Arm>),
}

fn shape_of(v: &GVal) -> Shape {
    match v {
        GVal::Null => Shape::Null,
        GVal::Bool(_) => Shape::Bool,
        GVal::Int(_) => Shape::Int,
        GVal::Float(_) => Shape::Float,
        GVal::Str(_) => Shape::Str,
        GVal::Tuple(fs) => Shape::Tuple(fs.iter().map(|(k, v)| (k.clone(), shape_of(v))).collect()),
        GVal::List(l) => {
            let mut ts: Vec<Shape> = vec![];
            for e in l {
                let s = shape_of(e);
                if !ts.contains(&s) {
                    ts.push(s);
                }
            }
            Shape::List(ts)
        }
        GVal::Constraint => Shape::Null,
    }
}

/// the exemplar rule of the property's statement
fn admits(a: &Shape, b: &Shape) -> bool {
    match (a, b) {
        (Shape::Null, _) | (_, Shape::Null) => true,
        (Shape::Tuple(x), Shape::Tuple(y)) => {
            let shared_ok = x.iter().all(|(k, s)| match y.iter().find(|(k2, _)| k2 == k) {
                Some((_, s2)) => admits(s, s2),
                None => true,
            });
            let x_in_y = x.iter().all(|(k, _)| y.iter().any(|(k2, _)| k2 == k));
            let y_in_x = y.iter().all(|(k, _)| x.iter().any(|(k2, _)| k2 == k));
            shared_ok && (x_in_y || y_in_x)
        }
        (Shape::List(x), Shape::List(y)) => {
            x.iter().all(|s| y.iter().any(|u| admits(s, u))) || y.iter().all(|u| x.iter().any(|s| admits(u, s)))
        }
        _ => a == b,
    }
}

fn lit_eq(a: &GVal, b: &GVal) -> bool {
    match (a, b) {
        // composite alternatives: the same fields / elements, in the same order, with equal values
        (GVal::Tuple(x), GVal::Tuple(y)) => x.len() == y.len() && x.iter().zip(y).all(|((k1, v1), (k2, v2))| k1 == k2 && lit_eq(v1, v2)),
        (GVal::List(x), GVal::List(y)) => x.len() == y.len() && x.iter().zip(y).all(|(v1, v2)| lit_eq(v1, v2)),
        (GVal::Int(x), GVal::Int(y)) => x == y,
        (GVal::Float(x), GVal::Float(y)) => x == y,
        (GVal::Str(x), GVal::Str(y)) => x == y,
        (GVal::Bool(x), GVal::Bool(y)) => x == y,
        _ => false,
    }
}

/// Some(true/false) = the property decides; None = outside what it states
fn conforms(c: &Constraint, v: &GVal) -> Option<bool> {
    match c {
        Constraint::Exemplar(e) => Some(admits(&shape_of(e), &shape_of(v))),
        Constraint::Arms(arms) => {
            if matches!(v, GVal::Null) {
                return None; // the reference's "NULL is compatible with any constraint" vs a value check: unstated
            }
            if arms.len() == 1 {
                if let Arm::Lit(l) = &arms[0] {
                    // a single literal is an exemplar (documented single-arm rule)
                    return Some(admits(&shape_of(l), &shape_of(v)));
                }
            }
            Some(arms.iter().any(|a| match (a, v) {
                (Arm::Lit(l), v) => lit_eq(l, v),
                (Arm::IntRange(lo, hi), GVal::Int(i)) => lo.map(|l| *i >= l).unwrap_or(true) && hi.map(|h| *i <= h).unwrap_or(true),
                (Arm::FloatRange(lo, hi), GVal::Float(f)) => lo.map(|l| *f >= l).unwrap_or(true) && hi.map(|h| *f <= h).unwrap_or(true),
                _ => false,
            }))
        }
    }
}

fn lit(v: &GVal) -> String {
    match v {
        // bounds and alternatives are written as plain literals (non-negative)
        GVal::Float(f) => crate::prog::float_lit(*f),
        other => other.to_ucg().expect("literal"),
    }
}

fn render_constraint(c: &Constraint) -> String {
    match c {
        Constraint::Exemplar(e) => lit(e),
        Constraint::Arms(arms) => arms
            .iter()
            .map(|a| match a {
                Arm::Lit(l) => lit(l),
                Arm::IntRange(lo, hi) => format!("in {}..{}", lo.map(|l| l.to_string()).unwrap_or_default(), hi.map(|h| h.to_string()).unwrap_or_default()),
                Arm::FloatRange(lo, hi) => format!("in {}..{}", lo.map(crate::prog::float_lit).unwrap_or_default(), hi.map(crate::prog::float_lit).unwrap_or_default()),
            })
            .collect::<Vec<_>>()
            .join(" | "),
    }
}

fn gen_exemplar(t: &mut Tape, depth: u32) -> GVal {
    let leaf = depth >= 3;
    match t.weighted(&[4, 2, 3, 2, 1, if leaf { 0 } else { 4 }, if leaf { 0 } else { 3 }]) {
        0 => GVal::Int(0),
        1 => GVal::Float(0.5),
        2 => GVal::Str(String::new()),
        3 => GVal::Bool(false),
        4 => GVal::Null,
        5 => {
            let n = 1 + t.choice(3);
            let mut fs: Vec<(String, GVal)> = vec![];
            for _ in 0..n {
                let k = (*t.pick(&["a", "b", "c", "host", "port"])).to_string();
                if fs.iter().any(|(k2, _)| *k2 == k) {
                    continue;
                }
                fs.push((k, gen_exemplar(t, depth + 1)));
            }
            GVal::Tuple(fs)
        }
        _ => {
            let n = t.choice(3);
            GVal::List((0..n).map(|_| gen_exemplar(t, depth + 1)).collect())
        }
    }
}

/// a value for the exemplar: same shape, or one perturbation
fn gen_value_for(t: &mut Tape, e: &GVal, depth: u32) -> GVal {
    let other_prim = |t: &mut Tape| match t.choice(5) {
        0 => GVal::Int(7),
        1 => GVal::Float(2.5),
        2 => GVal::Str("s".into()),
        3 => GVal::Bool(true),
        _ => GVal::Null,
    };
    if depth > 0 && t.chance(1, 6) {
        return other_prim(t);
    }
    match e {
        GVal::Int(_) => GVal::Int(t.range(0, 99)),
        GVal::Float(_) => GVal::Float(*t.pick(&[0.25, 1.5, 3.75])),
        GVal::Str(_) => GVal::Str((*t.pick(&["", "x", "hello"])).to_string()),
        GVal::Bool(_) => GVal::Bool(t.chance(1, 2)),
        GVal::Null => other_prim(t),
        GVal::Tuple(fs) => {
            let mut out: Vec<(String, GVal)> = vec![];
            for (k, v) in fs {
                if t.chance(1, 6) {
                    continue; // drop a field: the value's fields are a subset
                }
                out.push((k.clone(), gen_value_for(t, v, depth + 1)));
            }
            if t.chance(1, 5) {
                out.push(("extra".into(), other_prim(t))); // superset / overlap
            }
            GVal::Tuple(out)
        }
        GVal::List(items) => {
            let n = t.choice(4);
            let mut out = vec![];
            for _ in 0..n {
                if items.is_empty() || t.chance(1, 5) {
                    out.push(other_prim(t));
                } else {
                    let proto = &items[t.choice(items.len())];
                    out.push(gen_value_for(t, proto, depth + 1));
                }
            }
            GVal::List(out)
        }
        GVal::Constraint => GVal::Null,
    }
}

fn gen_arms(t: &mut Tape) -> (Vec<Arm>, Vec<GVal>) {
    // returns arms + interesting values (boundaries, hits, misses)
    let n = 1 + t.choice(4);
    let mut arms = vec![];
    let mut probes: Vec<GVal> = vec![];
    let kind = t.choice(4); // 0 ints, 1 floats, 2 strings, 3 tuples and lists
    for _ in 0..n {
        match (kind, t.chance(1, 2)) {
            (3, as_tuple) => {
                // composite alternatives; probes: the alternative itself, a strict prefix, an
                // extension, one changed value, the empty composite
                let len = t.choice(4);
                let mut fields: Vec<(String, GVal)> = vec![];
                for (i, k) in ["a", "b", "c"].iter().enumerate().take(len) {
                    let v = if t.chance(1, 2) { GVal::Int(t.range(0, 3)) } else { GVal::Str((*t.pick(&["x", "y", ""])).to_string()) };
                    let _ = i;
                    fields.push((k.to_string(), v));
                }
                let mk = |fs: &[(String, GVal)]| if as_tuple { GVal::Tuple(fs.to_vec()) } else { GVal::List(fs.iter().map(|(_, v)| v.clone()).collect()) };
                arms.push(Arm::Lit(mk(&fields)));
                probes.push(mk(&fields));
                if !fields.is_empty() {
                    probes.push(mk(&fields[..fields.len() - 1]));
                    let mut changed = fields.clone();
                    let last = changed.len() - 1;
                    changed[last].1 = match &changed[last].1 {
                        GVal::Int(i) => GVal::Int(i + 1),
                        _ => GVal::Str("changed".into()),
                    };
                    probes.push(mk(&changed));
                }
                let mut ext = fields.clone();
                ext.push(("d".to_string(), GVal::Int(7)));
                probes.push(mk(&ext));
                probes.push(mk(&[]));
            }
            (0, true) => {
                let lo = t.range(0, 50);
                let hi = lo + t.range(0, 50);
                let (l, h) = match t.choice(4) {
                    0 => (Some(lo), None),
                    1 => (None, Some(hi)),
                    _ => (Some(lo), Some(hi)),
                };
                arms.push(Arm::IntRange(l, h));
                for p in [lo - 1, lo, lo + 1, hi - 1, hi, hi + 1] {
                    if p >= 0 {
                        probes.push(GVal::Int(p));
                    }
                }
            }
            (0, false) => {
                let v = t.range(0, 120);
                arms.push(Arm::Lit(GVal::Int(v)));
                probes.push(GVal::Int(v));
                probes.push(GVal::Int(v + 1));
            }
            (1, true) => {
                let lo = t.range(0, 20) as f64 * 0.5;
                let hi = lo + t.range(0, 20) as f64 * 0.5;
                let (l, h) = match t.choice(4) {
                    0 => (Some(lo), None),
                    1 => (None, Some(hi)),
                    _ => (Some(lo), Some(hi)),
                };
                arms.push(Arm::FloatRange(l, h));
                for p in [lo - 0.25, lo, lo + 0.25, hi - 0.25, hi, hi + 0.25] {
                    if p >= 0.0 {
                        probes.push(GVal::Float(p));
                    }
                }
            }
            (1, false) => {
                let v = t.range(0, 40) as f64 * 0.25;
                arms.push(Arm::Lit(GVal::Float(v)));
                probes.push(GVal::Float(v));
                probes.push(GVal::Float(v + 0.25));
            }
            _ => {
                let v = (*t.pick(&["active", "inactive", "pending", "debug", "info", ""])).to_string();
                arms.push(Arm::Lit(GVal::Str(v.clone())));
                probes.push(GVal::Str(v));
                probes.push(GVal::Str("unknown".into()));
            }
        }
    }
    // a probe of another type
    probes.push(match kind {
        0 => GVal::Float(1.5),
        1 => GVal::Int(1),
        3 => GVal::Tuple(vec![("z".into(), GVal::Int(1))]),
        _ => GVal::Int(3),
    });
    probes.push(GVal::Str("other".into()));
    (arms, probes)
}

#[derive(Clone, Copy, PartialEq, Debug)]
enum Form {
    Inline,
    Named,
    LetBound,
    /// the named constraint in parentheses: `let x :: (cname) = ..`
    NamedGrouped,
    /// the named constraint of a tuple field: `{f :: cname = ..}`
    NamedField,
}

#[derive(Clone, Copy, PartialEq, Debug)]
enum Via {
    Literal,
    IdentityCall,
    Select,
    ListIndex,
    TupleField,
    /// a tuple built by copying a base and overriding every field (statically visible shape)
    CopyOverride,
}

fn program(c: &Constraint, v: &GVal, form: Form, via: Via) -> String {
    let cs = render_constraint(c);
    let vs = v.to_ucg().expect("literal");
    let mut s = String::new();
    let value = match via {
        Via::Literal => vs,
        Via::IdentityCall => {
            s.push_str("let idf = func (a) => a;\n");
            format!("idf({})", vs)
        }
        Via::Select => format!("select (\"k\", {0}) => {{k = {0}}}", vs),
        Via::ListIndex => format!("[{}].0", vs),
        Via::TupleField => format!("{{f = {}}}.f", vs),
        Via::CopyOverride => match v {
            GVal::Tuple(fs) if !fs.is_empty() => {
                s.push_str(&format!("let base = {};\n", vs));
                let overrides: Vec<String> = fs.iter().map(|(k, fv)| format!("{} = {}", crate::reflex::quote(k), fv.to_ucg().expect("literal"))).collect();
                format!("base{{{}}}", overrides.join(", "))
            }
            _ => vs,
        },
    };
    match form {
        Form::Inline => s.push_str(&format!("let x :: {} = {};\n", cs, value)),
        Form::Named => s.push_str(&format!("constraint cname = {};\nlet x :: cname = {};\n", cs, value)),
        Form::NamedGrouped => s.push_str(&format!("constraint cname = {};\nlet x :: (cname) = {};\n", cs, value)),
        Form::NamedField => s.push_str(&format!("constraint cname = {};\nlet x = {{f :: cname = {}}};\n", cs, value)),
        Form::LetBound => s.push_str(&format!("let Exemplar = {};\nlet x :: Exemplar = {};\n", cs, value)),
    }
    s
}

impl C06 {
    pub fn new(_tier: Tier) -> Self {
        C06 { ucg: Ucg::new() }
    }

    fn builds(&mut self, src: &str) -> Result<(), String> {
        self.ucg.reset();
        crate::props::c04::set_limit(8_000_000);
        let (file, r) = {
            let u = &mut self.ucg;
            match catch(std::panic::AssertUnwindSafe(|| u.build_src(src, true))) {
                Ok((p, r)) => (Some(p), r),
                Err(pi) => {
                    u.poison();
                    (None, Err(format!("panic: {} at {}", pi.msg, pi.loc)))
                }
            }
        };
        crate::props::c04::set_limit(u64::MAX);
        if let Some(f) = &file {
            self.ucg.cleanup_case_dir(f);
        }
        r.map(|_| ())
    }

    fn check(&mut self, c: &Constraint, v: &GVal, via: Via, boundary: bool) -> Outcome {
        let want = conforms(c, v);
        let forms: Vec<Form> = match c {
            Constraint::Exemplar(_) => vec![Form::Inline, Form::Named, Form::LetBound, Form::NamedGrouped],
            Constraint::Arms(_) => vec![Form::Inline, Form::Named, Form::NamedGrouped],
        };
        let rendered = format!("constraint: {}\nvalue: {} (written as {:?})\nexpected: {}", render_constraint(c), v.show(), via, match want { Some(true) => "builds", Some(false) => "is rejected", None => "unstated" });
        let mut o = Outcome::pass(rendered.clone());
        o.key = fnv(rendered.as_bytes());
        o.class(match c { Constraint::Exemplar(_) => "exemplar", Constraint::Arms(a) if a.len() == 1 => "single-arm", _ => "alternation" });
        o.class(&format!("via-{:?}", via));
        o.nontrivial = boundary || via != Via::Literal;
        let mut results = vec![];
        for f in &forms {
            let src = program(c, v, *f, via);
            let r = self.builds(&src);
            results.push((*f, src, r));
        }
        let single_literal0 = matches!(c, Constraint::Arms(a) if a.len() == 1 && matches!(a[0], Arm::Lit(_)));
        let kind = match c { Constraint::Exemplar(_) => "exemplar", _ if single_literal0 => "exemplar", _ => "range-or-alternation" };
        let how = match via { Via::Literal => "literal", Via::CopyOverride => "copy", _ => "computed" };
        o.portable = Some(serde_json::json!({"programs": results.iter().map(|(f, s, _)| serde_json::json!({"form": format!("{:?}", f), "src": s})).collect::<Vec<_>>(), "want": want, "kind": kind, "how": how}).to_string());
        // all forms agree
        let first_ok = results[0].2.is_ok();
        for (f, src, r) in &results {
            if r.is_ok() != first_ok {
                o.fail("C06/forms-disagree", format!("the same constraint behaves differently inline and as {:?}\n{}\ninline: {}\n{:?}: {}\nprogram:\n{}", f, rendered, if first_ok { "builds".to_string() } else { results[0].2.clone().unwrap_err() }, f, match r { Ok(()) => "builds".to_string(), Err(e) => e.clone() }, src));
                return o;
            }
            if let Err(e) = r {
                if e.trim().is_empty() {
                    o.fail("C06/no-diagnostic", format!("rejected without a diagnostic\n{}", src));
                    return o;
                }
                if e.starts_with("panic") {
                    o.fail("C06/panic", format!("{}\n{}", e, src));
                    return o;
                }
            }
        }
        match want {
            None => {
                o.class("unstated");
            }
            Some(true) => {
                o.class("conforming");
                if !first_ok {
                    o.fail(&format!("C06/conforming-value-rejected:{}", match c { Constraint::Exemplar(_) => "exemplar", _ => "range-or-alternation" }), format!("the value conforms but the binding is rejected: {}\n{}\nprogram:\n{}", results[0].2.clone().unwrap_err().lines().take(3).collect::<Vec<_>>().join(" | "), rendered, results[0].1));
                }
            }
            Some(false) => {
                o.class("non-conforming");
                if first_ok {
                    let how = match via { Via::Literal => "literal", Via::CopyOverride => "copy", _ => "computed" };
                    let single_literal = matches!(c, Constraint::Arms(a) if a.len() == 1 && matches!(a[0], Arm::Lit(_)));
                    o.fail(&format!("C06/non-conforming-value-accepted:{}:{}", match c { Constraint::Exemplar(_) => "exemplar", _ if single_literal => "exemplar", _ => "range-or-alternation" }, how), format!("the value does not conform but the binding builds\n{}\nprogram:\n{}", rendered, results[0].1));
                }
            }
        }
        o
    }
}

impl Property for C06 {
    fn id(&self) -> &'static str {
        "C06"
    }
    fn rule(&self) -> String {
        "pairs (constraint, value): exemplars (primitive, tuple and list, nested to depth 3) with values of the same shape or one perturbation (other primitive type, dropped / extra field, foreign list element, NULL); int and float ranges closed / open at either end and alternations of 1..4 literals and ranges with the boundary values lo-1, lo, lo+1, hi-1, hi, hi+1, hits, misses and values of another type; each constraint written inline, behind `constraint name = ..` and (exemplars) behind a let-bound name; each value written as a literal or computed (identity call, select, list index, tuple field) so that the static type is hidden. Expected: the file builds iff the value conforms by the property's statement; all forms must agree. Non-trivial: a boundary value or a computed value; distinct by (constraint, value, form of the value).".into()
    }
    fn assumptions(&self) -> Vec<String> {
        vec![
            "a NULL value against a range / alternation is unstated (the reference says NULL is compatible with any constraint, the statement speaks of numbers and alternatives): counted, not compared".into(),
            "alternation arms are primitives and ranges; recursive constraints are not generated".into(),
        ]
    }
    fn budget(&self, tier: Tier) -> Budget {
        Budget {
            cases: match tier {
                Tier::Quick => 40_000,
                Tier::Thorough => 1_000_000,
            },
            tape_min: 6,
            tape_max: 120,
        }
    }
    fn run_tape(&mut self, words: &[u32]) -> Outcome {
        let mut t = Tape::new(words);
        let via = match t.weighted(&[6, 2, 1, 1, 1, 2]) {
            5 => Via::CopyOverride,
            0 => Via::Literal,
            1 => Via::IdentityCall,
            2 => Via::Select,
            3 => Via::ListIndex,
            _ => Via::TupleField,
        };
        if t.chance(1, 2) {
            let e = gen_exemplar(&mut t, 0);
            let v = gen_value_for(&mut t, &e, 0);
            let boundary = shape_of(&e) != shape_of(&v);
            self.check(&Constraint::Exemplar(e), &v, via, boundary)
        } else {
            let (arms, probes) = gen_arms(&mut t);
            let v = probes[t.choice(probes.len())].clone();
            self.check(&Constraint::Arms(arms), &v, via, true)
        }
    }
    fn run_text(&mut self, text: &str) -> Outcome {
        let j: serde_json::Value = serde_json::from_str(text).expect("replay text is JSON");
        let want = j.get("want").and_then(|w| w.as_bool());
        let mut o = Outcome::pass(text.to_string());
        let progs = j.get("programs").and_then(|p| p.as_array()).cloned().unwrap_or_default();
        let mut first: Option<bool> = None;
        for p in progs {
            let src = p.get("src").and_then(|s| s.as_str()).unwrap_or("").to_string();
            let r = self.builds(&src);
            if first.is_none() {
                first = Some(r.is_ok());
            }
            if Some(r.is_ok()) != first {
                o.fail("C06/forms-disagree", format!("the forms of one constraint disagree\n{}", src));
            }
            if let Some(w) = want {
                if r.is_ok() != w {
                    let kind = j.get("kind").and_then(|k| k.as_str()).unwrap_or("exemplar");
                    let how = j.get("how").and_then(|k| k.as_str()).unwrap_or("literal");
                    let sig = if w { format!("C06/conforming-value-rejected:{}", kind) } else { format!("C06/non-conforming-value-accepted:{}:{}", kind, how) };
                    o.fail(&sig, format!("expected {} but {}\n{}", if w { "a build" } else { "a rejection" }, match &r { Ok(()) => "it builds".to_string(), Err(e) => format!("it fails: {}", e) }, src));
                }
            }
        }
        o
    }
}
