//! C18 — `env` exposes the process environment, nothing else, and cannot be shadowed.
//!
//! Oracle: the environment the harness itself set for the real binary.

use crate::cli;
use crate::core::*;
use crate::gval::gen_char;
use crate::tape::{fnv, Tape};
use std::path::PathBuf;

pub struct C18 {
    home: PathBuf,
}

const SECRET: &str = "s3cr3t-9f27c1d4e8a6b0";

fn gen_name(t: &mut Tape, used: &[(String, String)]) -> String {
    for _ in 0..5 {
        let n = match t.weighted(&[5, 3]) {
            0 => (*t.pick(&["HOME_DIR", "DEPLOY_ENV", "PATH_X", "USER_NAME", "A", "b", "_x", "X1", "lower_case", "MiXed9", "API_KEY", "PORT", "EMPTY", "Z_9_"])).to_string(),
            _ => {
                let len = 1 + t.choice(8);
                let mut s = String::new();
                for i in 0..len {
                    let cs: &[u8] = if i == 0 { b"ABCXYZabcxyz_" } else { b"ABCXYZabcxyz_0189" };
                    s.push(cs[t.choice(cs.len())] as char);
                }
                s
            }
        };
        if n != "HOME" && n != "RUST_BACKTRACE" && n != "UCG_SECRET" && !used.iter().any(|(k, _)| *k == n) {
            return n;
        }
    }
    format!("V{}", used.len())
}

fn gen_value(t: &mut Tape) -> String {
    match t.weighted(&[4, 3, 6]) {
        0 => (*t.pick(&["bar", "", "1", "true", "/usr/bin:/bin", "a b", "prod"])).to_string(),
        1 => (*t.pick(&["it's", "say \"hi\"", "$HOME", "`id`", "$(id)", "line1\nline2", "tab\there", "é ü 日本", "😀", " lead", "trail ", "back\\slash", "=", "a=b", "\r\n", "{x}"])).to_string(),
        _ => {
            let n = t.choice(20);
            (0..n)
                .map(|_| {
                    let c = gen_char(t);
                    if c == '\0' { 'x' } else { c }
                })
                .collect()
        }
    }
}

/// is the name usable after `env.` as a bareword selector?
fn bareword(n: &str) -> bool {
    let mut cs = n.chars();
    matches!(cs.next(), Some(c) if c.is_ascii_alphabetic())
        && n.chars().all(|c| c.is_ascii_alphanumeric() || c == '_' || c == '-')
        && !["true", "false", "NULL"].iter().any(|l| n.starts_with(l))
        && !crate::reflex::KEYWORDS.contains(&n)
}

struct Case {
    env: Vec<(String, String)>,
    src: String,
    strict: bool,
    /// expected: Ok(json of artifact) or Err(name that must be mentioned)
    want: Result<serde_json::Value, String>,
    label: &'static str,
    nontrivial: bool,
}

impl C18 {
    pub fn new(_tier: Tier) -> Self {
        C18 { home: crate::ucgrun::new_scratch_dir("c18home") }
    }

    fn run_case(&mut self, c: &Case) -> Outcome {
        let rendered = format!("[{}] env: {:?}\n{}", if c.strict { "strict" } else { "--no-strict" }, c.env, c.src);
        let mut o = Outcome::pass(rendered.clone());
        o.key = fnv(rendered.as_bytes());
        o.class(c.label);
        o.class(if c.strict { "strict" } else { "no-strict" });
        o.nontrivial = c.nontrivial;
        o.portable = Some(serde_json::json!({"env": c.env, "src": c.src, "strict": c.strict, "want": match &c.want { Ok(j) => serde_json::json!({"ok": j}), Err(n) => serde_json::json!({"err": n}) }, "label": c.label}).to_string());
        let dir = crate::ucgrun::new_scratch_dir("c18");
        std::fs::write(dir.join("main.ucg"), &c.src).expect("write");
        let mut env = c.env.clone();
        env.push(("UCG_SECRET".to_string(), SECRET.to_string()));
        let mut args = vec![];
        if !c.strict {
            args.push("--no-strict".to_string());
        }
        args.push("build".to_string());
        args.push("main.ucg".to_string());
        let r = cli::run_ucg(&cli::Cmd { args, cwd: &dir, env, home: &self.home, timeout: std::time::Duration::from_secs(60), stdin: None });
        let artifact = std::fs::read(dir.join("main.json")).ok();
        let _ = std::fs::remove_dir_all(&dir);
        if r.timed_out {
            return Outcome::discard("cli timeout", rendered);
        }
        let ctx = |why: String| format!("{}\n{}\nexit: {}\nstdout: {}\nstderr: {}", why, rendered, r.describe(), r.stdout, r.stderr);
        if !matches!(r.code, Some(0) | Some(1)) {
            o.fail("C18/crash", ctx("the binary crashed".into()));
            return o;
        }
        if r.stderr.contains(SECRET) || r.stdout.contains(SECRET) {
            o.fail("C18/secret-disclosed", ctx("the output discloses the value of an unrelated environment variable".into()));
            return o;
        }
        // values of other variables must not show up in a diagnostic either
        if r.code == Some(1) {
            for (k, v) in &c.env {
                if v.len() >= 6 && r.stderr.contains(v.as_str()) && !c.src.contains(v.as_str()) && !c.want.as_ref().err().map(|n| n == k).unwrap_or(false) {
                    o.fail("C18/other-values-disclosed", ctx(format!("the diagnostic discloses the value of {}", k)));
                    return o;
                }
            }
        }
        // the same read typed into `ucg repl`: the failure must not show the environment either
        if let (true, "read-unset", Err(name)) = (c.strict && o.key % 3 == 0, c.label, &c.want) {
            if let Some(expr) = c.src.strip_prefix("out json {v = ").and_then(|x| x.strip_suffix("};\n")) {
                o.class("repl-read-unset");
                let mut env = c.env.clone();
                env.push(("UCG_SECRET".to_string(), SECRET.to_string()));
                let rdir = crate::ucgrun::new_scratch_dir("c18repl");
                let rr = cli::run_repl(&format!("{};\n", expr), env, true, &rdir, &self.home);
                let _ = std::fs::remove_dir_all(&rdir);
                if !rr.timed_out {
                    // strict: the read fails and says which variable
                    if !rr.stdout.contains(name.as_str()) {
                        o.fail("C18/repl-unset-variable-accepted", format!("`{};` typed into a strict ucg repl should fail naming {}\n{}\noutput:\n{}", expr, name, rendered, rr.stdout));
                        return o;
                    }
                    if rr.stdout.contains(SECRET) || rr.stderr.contains(SECRET) {
                        o.fail("C18/repl-secret-disclosed", format!("`{};` typed into ucg repl discloses the value of an unrelated environment variable\n{}\noutput:\n{}", expr, rendered, rr.stdout));
                        return o;
                    }
                    for (k, v) in &c.env {
                        if v.len() >= 6 && rr.stdout.contains(v.as_str()) && !expr.contains(v.as_str()) && k != name {
                            o.fail("C18/repl-other-values-disclosed", format!("`{};` typed into ucg repl discloses the value of {}\n{}\noutput:\n{}", expr, k, rendered, rr.stdout));
                            return o;
                        }
                    }
                }
            }
        }
        // the same reads under the `test` sub-command: strictness is the command line's to decide
        if c.label == "read-unset" && o.key % 2 == 1 {
            if let Some(expr) = c.src.strip_prefix("out json {v = ").and_then(|x| x.strip_suffix("};\n")) {
                o.class("test-sub-command");
                let tdir = crate::ucgrun::new_scratch_dir("c18test");
                std::fs::write(tdir.join("unset_test.ucg"), format!("assert {{ok = {} == NULL, desc = \"an unset variable reads as NULL\"}};\n", expr)).expect("write");
                let mut env = c.env.clone();
                env.push(("UCG_SECRET".to_string(), SECRET.to_string()));
                let mut args = vec![];
                if !c.strict {
                    args.push("--no-strict".to_string());
                }
                args.push("test".to_string());
                args.push("unset_test.ucg".to_string());
                let tr = cli::run_ucg(&cli::Cmd { args, cwd: &tdir, env, home: &self.home, timeout: std::time::Duration::from_secs(60), stdin: None });
                let _ = std::fs::remove_dir_all(&tdir);
                if !tr.timed_out {
                    let shown = format!("{}\nucg {}test unset_test.ucg -> {}\nstdout: {}\nstderr: {}", rendered, if c.strict { "" } else { "--no-strict " }, tr.describe(), tr.stdout, tr.stderr);
                    if tr.stdout.contains(SECRET) || tr.stderr.contains(SECRET) {
                        o.fail("C18/secret-disclosed", format!("`ucg test` discloses the value of an unrelated environment variable\n{}", shown));
                        return o;
                    }
                    if c.strict && tr.code == Some(0) {
                        o.fail("C18/unset-variable-accepted", format!("strict `ucg test` passes a file that reads an unset variable\n{}", shown));
                        return o;
                    }
                    if !c.strict && tr.code != Some(0) {
                        o.fail("C18/no-strict-not-null", format!("with --no-strict an unset variable must read as NULL under `ucg test` too\n{}", shown));
                        return o;
                    }
                }
            }
        }
        match &c.want {
            Ok(want) => {
                if r.code != Some(0) {
                    o.fail("C18/build-fails", ctx("the build should succeed".into()));
                    return o;
                }
                let got: Option<serde_json::Value> = artifact.as_ref().and_then(|b| serde_json::from_slice(b).ok());
                if got.as_ref() != Some(want) {
                    o.fail("C18/wrong-value", ctx(format!("expected artifact {} but got {}", want, got.map(|g| g.to_string()).unwrap_or_else(|| format!("{:?}", artifact.map(|b| String::from_utf8_lossy(&b).into_owned()))))));
                }
            }
            Err(name) => {
                if r.code != Some(1) {
                    o.fail("C18/unset-variable-accepted", ctx(format!("the build should fail: {} is not set", name)));
                    return o;
                }
                if !name.is_empty() && !r.stderr.contains(name.as_str()) {
                    o.fail("C18/diagnostic-does-not-name-variable", ctx(format!("the diagnostic does not name {}", name)));
                }
            }
        }
        o
    }
}

impl Property for C18 {
    fn id(&self) -> &'static str {
        "C18"
    }
    fn rule(&self) -> String {
        "random environments of 0..20 variables (names [A-Za-z_][A-Za-z0-9_]*, values arbitrary Unicode without NUL incl. empty, quotes, $, newlines) given to the real binary with a cleared environment plus a planted secret; programs read set and unset names as env.NAME and env.\"NAME\", in strict mode and with --no-strict, at top level and inside functions, modules and format expressions; templates: `let env = ..` must be rejected, {env = 5}.env and a field selector named env yield the field. The JSON artifact must equal the value set, an unset name must fail (strict, naming the variable) or be null (--no-strict), and no output may contain the secret or another variable's value. Non-trivial: an unset name is read while other variables are set, or the value has a non-ASCII / shell-active character; distinct by (environment, program, mode).".into()
    }
    fn assumptions(&self) -> Vec<String> {
        vec![
            "1 in 3 strict reads of an unset variable is also typed into `ucg repl`: its output must not contain the secret or another variable's value".into(),
            "the JSON artifact is decoded with serde_json (JSON output correctness is C03's subject)".into(),
            "variable names that are not barewords are read with the quoted selector form".into(),
        ]
    }
    fn budget(&self, tier: Tier) -> Budget {
        Budget {
            cases: match tier {
                Tier::Quick => 2_400,
                Tier::Thorough => 60_000,
            },
            tape_min: 4,
            tape_max: 200,
        }
    }
    fn run_tape(&mut self, words: &[u32]) -> Outcome {
        let mut t = Tape::new(words);
        let n = t.choice(21);
        let mut env: Vec<(String, String)> = vec![];
        for _ in 0..n {
            let k = gen_name(&mut t, &env);
            let v = gen_value(&mut t);
            env.push((k, v));
        }
        let strict = !t.chance(1, 3);
        let sel = |n: &str, t: &mut Tape| -> String {
            if bareword(n) && !t.chance(1, 3) {
                format!("env.{}", n)
            } else {
                format!("env.{}", crate::reflex::quote(n))
            }
        };
        let case = match t.weighted(&[8, 5, 3, 2, 6]) {
            4 if env.len() >= 2 => {
                // several different variables in one program
                let i = t.choice(env.len());
                let j = (i + 1 + t.choice(env.len() - 1)) % env.len();
                let (k1, v1) = env[i].clone();
                let (k2, v2) = env[j].clone();
                let (e1, e2) = (sel(&k1, &mut t), sel(&k2, &mut t));
                let (src, want, label) = match t.choice(5) {
                    0 => (format!("let a = {};\nlet b = {};\nout json {{v = a, w = b}};\n", e1, e2), serde_json::json!({"v": v1, "w": v2}), "read-two-at-statement-level"),
                    1 => (format!("out json {{v = {}, w = {}}};\n", e1, e2), serde_json::json!({"v": v1, "w": v2}), "read-two-in-a-tuple"),
                    2 => (format!("out json {{v = [{}, {}]}};\n", e1, e2), serde_json::json!({"v": [v1, v2]}), "read-two-in-a-list"),
                    3 => (format!("let both = {} + {};\nout json {{v = both}};\n", e1, e2), serde_json::json!({"v": format!("{}{}", v1, v2)}), "read-two-in-an-expression"),
                    _ => (format!("let a = {};\nlet f = func () => {};\nout json {{v = a, w = f(), x = {}}};\n", e1, e2, e1), serde_json::json!({"v": v1, "w": v2, "x": v1}), "read-two-statement-and-function"),
                };
                let nt = true;
                Case { env: env.clone(), src, strict, want: Ok(want), label, nontrivial: nt }
            }
            0 | 4 if !env.is_empty() => {
                // read a set variable
                let (k, v) = env[t.choice(env.len())].clone();
                let e = sel(&k, &mut t);
                let (src, label) = match t.choice(5) {
                    0 => (format!("out json {{v = {}}};\n", e), "read-set"),
                    1 => (format!("let f = func () => {};\nout json {{v = f()}};\n", e), "read-set-in-function"),
                    2 => (format!("let m = module {{}} => (r) {{ let r = {}; }};\nout json {{v = m{{}}}};\n", e), "read-set-in-module"),
                    3 => (format!("let s = \"@{{{}}}\" % 1;\nout json {{v = s}};\n", e.replace('"', "\\\"")), "read-set-in-format"),
                    _ => (format!("let all = env;\nout json {{v = all.{}}};\n", if bareword(&k) { k.clone() } else { crate::reflex::quote(&k) }), "read-set-through-binding"),
                };
                let nt = !v.is_ascii() || v.chars().any(|c| "'\"$`\\\n ".contains(c));
                Case { env: env.clone(), src, strict, want: Ok(serde_json::json!({"v": v})), label, nontrivial: nt }
            }
            1 | 0 | 4 => {
                // read an unset variable
                let name = loop {
                    let k = gen_name(&mut t, &env);
                    if !env.iter().any(|(e, _)| *e == k) {
                        break k;
                    }
                };
                let e = sel(&name, &mut t);
                let (src, label) = match t.choice(4) {
                    0 => (format!("out json {{v = {}}};\n", e), "read-unset"),
                    1 => (format!("let f = func () => {};\nout json {{v = f()}};\n", e), "read-unset-in-function"),
                    2 => (format!("let m = module {{}} => (r) {{ let r = {}; }};\nout json {{v = m{{}}}};\n", e), "read-unset-in-module"),
                    _ => (format!("let s = \"x@{{{}}}\" % 1;\nout json {{v = s}};\n", e.replace('"', "\\\"")), "read-unset-in-format"),
                };
                let want = if strict {
                    Err(name.clone())
                } else if label == "read-unset-in-format" {
                    Ok(serde_json::json!({"v": "xNULL"}))
                } else {
                    Ok(serde_json::json!({"v": null}))
                };
                Case { env: env.clone(), src, strict, want, label, nontrivial: !env.is_empty() }
            }
            2 => {
                // env cannot be bound
                let src = (*t.pick(&["let env = 1;\nout json {v = 1};\n", "let env = {A = \"x\"};\nout json {v = env.A};\n", "constraint env = in 1..5;\nout json {v = 1};\n"])).to_string();
                Case { env: env.clone(), src, strict, want: Err(String::new()), label: "let-env-rejected", nontrivial: true }
            }
            _ => {
                // a field or selector named env is just that field
                let (src, want) = match t.choice(3) {
                    0 => ("out json {v = {env = 5}.env};\n".to_string(), serde_json::json!({"v": 5.0})),
                    1 => ("let t = {env = \"field\", other = 1};\nout json {v = t.env, w = t.\"env\"};\n".to_string(), serde_json::json!({"v": "field", "w": "field"})),
                    _ => ("let t = {a = {env = [1, 2]}};\nout json {v = t.a.env.1};\n".to_string(), serde_json::json!({"v": 2.0})),
                };
                Case { env: env.clone(), src, strict, want: Ok(want), label: "field-named-env", nontrivial: true }
            }
        };
        self.run_case(&case)
    }
    fn run_text(&mut self, text: &str) -> Outcome {
        let j: serde_json::Value = serde_json::from_str(text).expect("replay text is JSON");
        let env: Vec<(String, String)> = serde_json::from_value(j.get("env").cloned().unwrap_or_default()).unwrap_or_default();
        let want = match j.get("want") {
            Some(w) if w.get("ok").is_some() => Ok(w.get("ok").cloned().unwrap()),
            Some(w) => Err(w.get("err").and_then(|e| e.as_str()).unwrap_or("").to_string()),
            None => Err(String::new()),
        };
        let c = Case { env, src: j.get("src").and_then(|s| s.as_str()).unwrap_or("").to_string(), strict: j.get("strict").and_then(|s| s.as_bool()).unwrap_or(true), want, label: "replay", nontrivial: true };
        self.run_case(&c)
    }
}
