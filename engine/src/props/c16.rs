//! C16 — a file builds the same alone, in any batch, in any order, any number of times.
//!
//! Oracle: differential on the real binary.  Baseline: every file built alone
//! in a fresh process on a fresh copy of the project.  Then every order of the
//! file list in one invocation (and -r), on fresh copies and repeated on the
//! same directory: per-file success, artifact bytes and the exit status must
//! match the baseline.

use crate::cli;
use crate::core::*;
use crate::tape::{fnv, Tape};
use std::collections::BTreeMap;
use std::path::{Path, PathBuf};

pub struct C16 {
    home: PathBuf,
}

#[derive(Clone, Debug)]
struct PFile {
    rel: String,
    src: String,
    has_out: bool,
    kind: String,
}

#[derive(Clone, Debug, PartialEq)]
struct Result1 {
    ok: bool,
    artifact: Option<Vec<u8>>,
}

fn write_project(dir: &Path, files: &[PFile]) {
    for f in files {
        let p = dir.join(&f.rel);
        if let Some(parent) = p.parent() {
            let _ = std::fs::create_dir_all(parent);
        }
        std::fs::write(&p, &f.src).expect("write project file");
    }
    // a data file every project has: its base64 differs between the two alphabets
    std::fs::write(dir.join("key.bin"), [0xfbu8, 0xff, 0xfe, 0x3e, 0x3f, 0xfa]).expect("write data file");
    // a library every project has whose module writes an artifact of its own (next to the library,
    // whoever instantiates it); it is not in the file list, so that artifact is never compared
    let _ = std::fs::create_dir_all(dir.join("shared"));
    std::fs::write(dir.join("shared/outmod.ucg"), "let m = module {v = 1} => (r) {\n  let r = {v = mod.v + 1};\n  out json r;\n};\n").expect("write library");
}

fn artifact_of(dir: &Path, f: &PFile) -> Option<Vec<u8>> {
    std::fs::read(dir.join(&f.rel).with_extension("json")).ok()
}

fn rel_import(from: &str, to: &str) -> String {
    // both relative to the project root; at most one directory level
    let fd = Path::new(from).parent().map(|p| p.to_string_lossy().into_owned()).unwrap_or_default();
    if fd.is_empty() {
        format!("./{}", to)
    } else {
        format!("../{}", to)
    }
}

fn permutations(n: usize, limit: usize, t: &mut Tape) -> Vec<Vec<usize>> {
    let mut all = vec![];
    fn go(cur: &mut Vec<usize>, used: &mut Vec<bool>, n: usize, out: &mut Vec<Vec<usize>>) {
        if cur.len() == n {
            out.push(cur.clone());
            return;
        }
        for i in 0..n {
            if !used[i] {
                used[i] = true;
                cur.push(i);
                go(cur, used, n, out);
                cur.pop();
                used[i] = false;
            }
        }
    }
    if n <= 4 {
        go(&mut vec![], &mut vec![false; n], n, &mut all);
        return all;
    }
    for _ in 0..limit {
        let mut v: Vec<usize> = (0..n).collect();
        for i in (1..n).rev() {
            let j = t.choice(i + 1);
            v.swap(i, j);
        }
        all.push(v);
    }
    all
}

impl C16 {
    pub fn new(_tier: Tier) -> Self {
        C16 { home: crate::ucgrun::new_scratch_dir("c16home") }
    }

    fn build(&self, dir: &Path, args: &[String]) -> cli::RunOut {
        let mut a = vec!["build".to_string()];
        a.extend(args.iter().cloned());
        cli::run_ucg(&cli::Cmd { args: a, cwd: dir, env: vec![], home: &self.home, timeout: std::time::Duration::from_secs(60), stdin: None })
    }

    fn gen_project(&self, t: &mut Tape) -> Vec<PFile> {
        let n = 2 + t.choice(5);
        let mut files: Vec<PFile> = vec![];
        let mut needs_broken: Vec<String> = vec![];
        let stems = ["a", "b", "main", "lib", "conf"];
        for i in 0..n {
            let stem = stems[t.choice(stems.len())];
            let in_sub = t.chance(1, 3);
            let mut rel = if in_sub { format!("sub/{}.ucg", stem) } else { format!("{}.ucg", stem) };
            if files.iter().any(|f| f.rel == rel) {
                rel = if in_sub { format!("sub/{}{}.ucg", stem, i) } else { format!("{}{}.ucg", stem, i) };
            }
            let kind = t.weighted(&[4, 5, 1, 1, 1]);
            let v = 10 * (i as i64 + 1) + t.range(0, 9);
            let (src, has_out, kname) = match kind {
                0 => {
                    // library, sometimes with its own artifact
                    let out = t.chance(1, 2);
                    let mut s = format!("let v = {};\nlet f = func (x) => x + v;\nlet m = module {{k = 1}} => (r) {{ let r = mod.k + {}; }};\n", v, v);
                    if out {
                        s.push_str(&format!("out json {{lib = v, from = \"{}\"}};\n", rel));
                    }
                    // a module whose body has an out statement of its own: written under this
                    // library's name, so instantiating it fails when the library also has an out
                    let out_module = t.chance(1, 3);
                    if out_module {
                        s.push_str("let om = module {k = 1} => (r) { let r = mod.k + 1; out json {made_by = mod.k}; };\n");
                    }
                    if t.chance(1, 5) {
                        // an import that is never evaluated but has to be linked: of a file that is
                        // not there, or of one that does not parse
                        if t.chance(1, 2) {
                            s.push_str("let lazy = func () => import \"./not_there.ucg\";\n");
                        } else {
                            s.push_str("let lazy = func () => import \"./zz_broken.ucg\";\n");
                            needs_broken.push(rel.clone());
                        }
                    }
                    (s, out, if out_module { "library-with-out-module" } else { "library" })
                }
                1 => {
                    // entry file importing earlier files
                    let mut s = String::new();
                    let mut fields = vec![format!("me = {}", v)];
                    let k = if files.is_empty() { 0 } else { t.choice(3) };
                    for j in 0..k {
                        let dep = &files[t.choice(files.len())];
                        s.push_str(&format!("let i{} = import \"{}\";\n", j, rel_import(&rel, &dep.rel)));
                        if dep.kind == "library-with-out-module" && t.chance(2, 3) {
                            fields.push(format!("o{} = i{}.om{{k = {}}}", j, j, 2 + j));
                        }
                        if dep.kind.starts_with("library") || dep.kind == "entry" {
                            fields.push(format!("d{} = i{}.v", j, j));
                            if dep.kind.starts_with("library") {
                                fields.push(format!("c{} = i{}.f(1)", j, j));
                                fields.push(format!("m{} = i{}.m{{k = 2}}", j, j));
                            }
                        }
                    }
                    if t.chance(1, 3) {
                        // the same data file, decoded by whichever importer this file asks for
                        fields.push(format!("key = include {} \"{}\"", if t.chance(1, 2) { "b64" } else { "b64urlsafe" }, rel_import(&rel, "key.bin")));
                    }
                    s.push_str(&format!("let v = {};\n", v));
                    s.push_str(&format!("out json {{{}}};\n", fields.join(", ")));
                    (s, true, "entry")
                }
                2 => (format!("let v = {};\nlet broken = = 1;\n", v), false, "syntax-error"),
                3 => (format!("let v = {};\nlet bad = 1 + \"a\";\nout json {{v = v}};\n", v), false, "type-error"),
                _ => (format!("let v = {};\nout json {{v = v}};\nlet boom = 1 / (v - v);\n", v), true, "runtime-error-after-out"),
            };
            files.push(PFile { rel, src, has_out, kind: kname.to_string() });
        }
        // two directories with a same-named sibling each: lib/l.ucg imports its own ./defaults.ucg
        // and is imported from lib/ (report) and from app/ (main), which has another defaults.ucg
        if t.chance(1, 4) {
            files.push(PFile { rel: "lib/defaults.ucg".into(), src: "let v = 1;\nlet name = \"svc\";\n".into(), has_out: false, kind: "library".into() });
            files.push(PFile { rel: "lib/l.ucg".into(), src: "let defaults = import \"./defaults.ucg\";\nlet v = 2;\n".into(), has_out: false, kind: "library".into() });
            files.push(PFile { rel: "app/defaults.ucg".into(), src: "let v = 3;\nlet region = \"eu\";\n".into(), has_out: false, kind: "library".into() });
            files.push(PFile { rel: "lib/report.ucg".into(), src: "let l = import \"./l.ucg\";\nlet name = l.defaults.name;\nlet v = 4;\nout json {name = name};\n".into(), has_out: true, kind: "entry".into() });
            files.push(PFile { rel: "app/main.ucg".into(), src: "let l = import \"../lib/l.ucg\";\nlet defaults = import \"./defaults.ucg\";\nlet name = l.defaults.name;\nlet v = 5;\nout json {name = name, region = defaults.region};\n".into(), has_out: true, kind: "entry".into() });
        }
        // entry files that instantiate the module of shared/outmod.ucg, whose body has an out
        // statement: each builds alone, so each builds in a batch with the others
        if t.chance(1, 3) {
            let k = 2 + t.choice(2);
            for j in 0..k {
                let in_sub = t.chance(1, 3);
                let rel = if in_sub { format!("sub/w{}.ucg", j) } else { format!("w{}.ucg", j) };
                let v = 100 + 10 * j as i64 + t.range(0, 9);
                let src = format!("let l = import \"{}\";\nlet x = l.m{{v = {}}};\nlet v = {};\nout json {{v = v, x = x.v}};\n", rel_import(&rel, "shared/outmod.ucg"), v, v);
                files.push(PFile { rel, src, has_out: true, kind: "entry-instantiating-out-module".into() });
            }
        }
        // the unparsable files the lazy imports name, next to their importers (never built themselves:
        // the name does not end in .ucg for the recursive build... it does, so it is part of the project)
        for r in needs_broken {
            let dir = if r.starts_with("sub/") { "sub/" } else { "" };
            let rel = format!("{}zz_broken.ucg", dir);
            if !files.iter().any(|f| f.rel == rel) {
                files.push(PFile { rel, src: "let broken = = 1;\n".to_string(), has_out: false, kind: "syntax-error".to_string() });
            }
        }
        files
    }

    fn check_project(&mut self, files: &[PFile], orders: &[Vec<usize>]) -> Outcome {
        let rendered = files.iter().map(|f| format!("--- {} ({}) ---\n{}", f.rel, f.kind, f.src)).collect::<Vec<_>>().join("");
        let mut o = Outcome::pass(rendered.clone());
        o.key = fnv(rendered.as_bytes());
        o.portable = Some(serde_json::json!({"files": files.iter().map(|f| serde_json::json!({"rel": f.rel, "src": f.src, "has_out": f.has_out, "kind": f.kind})).collect::<Vec<_>>(), "orders": orders}).to_string());
        o.class(&format!("files-{}", files.len()));
        let imported: Vec<bool> = files.iter().map(|f| files.iter().any(|g| g.src.contains(&format!("/{}\"", f.rel)) || g.src.contains(&format!("./{}\"", f.rel)))).collect();
        let built_and_imported = imported.iter().any(|b| *b);
        if built_and_imported {
            o.class("file-built-and-imported");
        }
        if files.iter().any(|f| f.src.contains(".om{")) {
            o.class("entry-instantiates-out-module-of-imported-library");
        }
        if files.iter().filter(|f| f.kind == "entry-instantiating-out-module").count() >= 2 {
            o.class("two-files-instantiate-a-module-with-out");
        }
        // baseline: each file alone, fresh process, fresh copy
        let mut base: Vec<Result1> = vec![];
        for f in files {
            let dir = crate::ucgrun::new_scratch_dir("c16b");
            write_project(&dir, files);
            let r = self.build(&dir, &[f.rel.clone()]);
            if r.timed_out {
                let _ = std::fs::remove_dir_all(&dir);
                return Outcome::discard("cli timeout", rendered);
            }
            if !matches!(r.code, Some(0) | Some(1)) {
                o.fail("C16/crash", format!("`ucg build {}` ended with {}\nstderr: {}\n{}", f.rel, r.describe(), r.stderr, rendered));
                let _ = std::fs::remove_dir_all(&dir);
                return o;
            }
            base.push(Result1 { ok: r.code == Some(0), artifact: artifact_of(&dir, f) });
            let _ = std::fs::remove_dir_all(&dir);
        }
        let fail_before_pass = orders.iter().any(|ord| (0..ord.len()).any(|a| (a + 1..ord.len()).any(|b| !base[ord[a]].ok && base[ord[b]].ok)));
        o.nontrivial = built_and_imported || fail_before_pass;
        if fail_before_pass {
            o.class("failing-file-before-passing-file");
        }
        let expect_exit_ok = base.iter().all(|b| b.ok);
        // batches
        let mut check_run = |o: &mut Outcome, dir: &Path, args: &[String], r: &cli::RunOut, what: &str| -> bool {
            let ctx = |why: String| format!("{} [{}]\ninvocation: ucg build {}\n{}\nstdout:\n{}\nstderr:\n{}", why, what, args.join(" "), rendered, r.stdout, r.stderr);
            if !matches!(r.code, Some(0) | Some(1)) {
                o.fail("C16/crash", ctx(format!("ended with {}", r.describe())));
                return false;
            }
            if (r.code == Some(0)) != expect_exit_ok {
                o.fail("C16/exit-status", ctx(format!("exit status {} but building each file alone gives {}", r.describe(), if expect_exit_ok { "success for every file" } else { "a failure for some file" })));
                return false;
            }
            for (i, f) in files.iter().enumerate() {
                let abs = dir.join(&f.rel);
                let failed_here = r.stderr.lines().any(|l| l.starts_with("Error building file:") && l.trim_end().ends_with(&abs.to_string_lossy().to_string()))
                    || r.stderr.lines().any(|l| l.contains(&abs.to_string_lossy().to_string()) && (l.contains("ParseError") || l.contains("Err")) && !base[i].ok && false);
                // a file that fails to parse is reported without the "Error building file" prefix in some paths:
                let mentioned_error = failed_here;
                if base[i].ok && mentioned_error {
                    o.fail("C16/file-fails-in-batch", ctx(format!("{} builds alone but fails in this invocation", f.rel)));
                    return false;
                }
                if f.kind == "library-with-out-module" {
                    // its artifact is also written by whoever instantiates its module: last writer wins
                    continue;
                }
                if !base[i].ok {
                    // a file that fails alone leaves the same artifact (usually none) in a batch
                    let art = artifact_of(dir, f);
                    if art != base[i].artifact {
                        o.fail("C16/failing-file-artifact-differs", ctx(format!("{} fails when built alone but its artifact differs in this invocation\nalone: {:?}\nbatch: {:?}", f.rel, base[i].artifact.as_ref().map(|b| String::from_utf8_lossy(b).into_owned()), art.as_ref().map(|b| String::from_utf8_lossy(b).into_owned()))));
                        return false;
                    }
                }
                if base[i].ok {
                    let art = artifact_of(dir, f);
                    if art != base[i].artifact {
                        o.fail("C16/artifact-differs", ctx(format!("the artifact of {} differs from the one built alone\nalone: {:?}\nbatch: {:?}", f.rel, base[i].artifact.as_ref().map(|b| String::from_utf8_lossy(b).into_owned()), art.as_ref().map(|b| String::from_utf8_lossy(b).into_owned()))));
                        return false;
                    }
                }
            }
            true
        };
        for ord in orders {
            let args: Vec<String> = ord.iter().map(|i| files[*i].rel.clone()).collect();
            // twice on fresh copies, then once more on the same directory
            for round in 0..2 {
                let dir = crate::ucgrun::new_scratch_dir("c16r");
                write_project(&dir, files);
                let r = self.build(&dir, &args);
                if r.timed_out {
                    let _ = std::fs::remove_dir_all(&dir);
                    return Outcome::discard("cli timeout", rendered);
                }
                let mut okay = check_run(&mut o, &dir, &args, &r, if round == 0 { "fresh copy" } else { "second fresh copy" });
                if okay && round == 1 {
                    let r2 = self.build(&dir, &args);
                    if !r2.timed_out {
                        okay = check_run(&mut o, &dir, &args, &r2, "repeated on the same directory");
                    }
                }
                let _ = std::fs::remove_dir_all(&dir);
                if !okay {
                    return o;
                }
            }
        }
        // the same batch from a directory below the project, every argument spelled with ../
        if let Some(ord) = orders.first() {
            let dir = crate::ucgrun::new_scratch_dir("c16u");
            write_project(&dir, files);
            let below = dir.join("zz_cwd");
            std::fs::create_dir_all(&below).expect("mkdir");
            let args: Vec<String> = ord.iter().map(|i| format!("../{}", files[*i].rel)).collect();
            let mut a = vec!["build".to_string()];
            a.extend(args.iter().cloned());
            let r = cli::run_ucg(&cli::Cmd { args: a, cwd: &below, env: vec![], home: &self.home, timeout: std::time::Duration::from_secs(60), stdin: None });
            if !r.timed_out {
                // diagnostics name the path as spelled: compare through the canonical directory
                let shown = below.join("..");
                let okay = check_run(&mut o, &shown, &args, &r, "from a directory below, arguments spelled with ../");
                if !okay {
                    let _ = std::fs::remove_dir_all(&dir);
                    return o;
                }
            }
            let _ = std::fs::remove_dir_all(&dir);
        }
        // recursive form
        {
            let dir = crate::ucgrun::new_scratch_dir("c16d");
            write_project(&dir, files);
            let args = vec!["-r".to_string(), ".".to_string()];
            let r = self.build(&dir, &args);
            if !r.timed_out {
                check_run(&mut o, &dir, &args, &r, "recursive directory build");
            }
            let _ = std::fs::remove_dir_all(&dir);
        }
        o
    }
}

impl Property for C16 {
    fn id(&self) -> &'static str {
        "C16"
    }
    fn rule(&self) -> String {
        "generated projects of 2..6 files in two directories (libraries with functions and modules, with and without their own out and with and without a module whose body has an out; entry files importing earlier files and using their values, functions and modules; syntax / type / run-time failing files; identical stems in different directories; two or three entry files that instantiate the module of a shared library whose body has an out statement); baseline = each file built alone by the real binary in a fresh process on a fresh copy; then every permutation of the file list (<= 4 files, 12 random orders beyond) in one invocation, twice on fresh copies and once repeated on the same directory, plus `ucg build -r .`; per-file failure (from the `Error building file:` diagnostics), artifact bytes and exit status must equal the baseline. Non-trivial: a file is both built and imported, or a failing file precedes a passing one; distinct by project.".into()
    }
    fn assumptions(&self) -> Vec<String> {
        vec!["'any number of times' is tested as two fresh runs plus one repetition on the same directory".into()]
    }
    fn budget(&self, tier: Tier) -> Budget {
        Budget {
            cases: match tier {
                Tier::Quick => 160,
                Tier::Thorough => 3_000,
            },
            tape_min: 6,
            tape_max: 120,
        }
    }
    fn run_tape(&mut self, words: &[u32]) -> Outcome {
        let mut t = Tape::new(words);
        let files = self.gen_project(&mut t);
        let orders = permutations(files.len(), 12, &mut t);
        self.check_project(&files, &orders)
    }
    fn run_text(&mut self, text: &str) -> Outcome {
        let j: serde_json::Value = serde_json::from_str(text).expect("replay text is JSON");
        let files: Vec<PFile> = j.get("files").and_then(|f| f.as_array()).expect("files").iter().map(|f| PFile {
            rel: f.get("rel").and_then(|x| x.as_str()).unwrap_or("a.ucg").to_string(),
            src: f.get("src").and_then(|x| x.as_str()).unwrap_or("").to_string(),
            has_out: f.get("has_out").and_then(|x| x.as_bool()).unwrap_or(false),
            kind: f.get("kind").and_then(|x| x.as_str()).unwrap_or("").to_string(),
        }).collect();
        let orders: Vec<Vec<usize>> = j.get("orders").and_then(|o| serde_json::from_value(o.clone()).ok()).unwrap_or_else(|| vec![(0..files.len()).collect()]);
        self.check_project(&files, &orders)
    }
    fn vacuity_floor(&self) -> Vec<(&'static str, f64)> {
        vec![("file-built-and-imported", 15.0)]
    }
}

#[allow(dead_code)]
fn unused(_: BTreeMap<String, String>) {}
