//! C15 — included data files decode to the data they contain.
//!
//! The documents are written by the harness's own JSON / YAML / TOML emitters
//! from generated trees (so the expected value is the tree itself); Python's
//! decoders read the same file as a self-check of the emitters and as the
//! oracle for truncated / corrupted variants.

use crate::core::*;
use crate::gval::{gen_char, gen_float, gen_int, GVal};
use crate::pyoracle::{DTree, PyOracle};
use crate::props::c03::same_data;
use crate::tape::{fnv, Tape};
use crate::ucgrun::Ucg;
use ucglib::build::Val;

pub struct C15 {
    py: Option<PyOracle>,
    ucg: Ucg,
    /// the mode the in-process builds run in; every case is judged in both
    strict: bool,
}

// ------------------------------------------------------------------ trees

const PLAIN_KEYS: [&str; 10] = ["a", "b", "name", "host", "port", "k1", "k_2", "k-3", "items", "conf"];
const ODD_KEYS: [&str; 10] = ["", "a b", "a.b", "ké", "日本", "true", "1", "a\"b", "a'b", "k:v"];

fn gen_text(t: &mut Tape, max: usize) -> String {
    match t.weighted(&[4, 3, 5]) {
        0 => (*t.pick(&["", "a", "hello", "hello world", "x y", "value-1", "CamelCase"])).to_string(),
        1 => (*t.pick(&["true", "null", "1", "1.5", "~", "a: b", "- x", "#c", "line1\nline2", "tab\there", "q\"uote", "it's", "back\\slash", "é", "日本語", "😀", "trailing ", " leading", "a\n", "a\n\n", "[x]", "{y}", "yes", "0x1F"])).to_string(),
        _ => {
            let n = t.choice(max + 1);
            (0..n)
                .map(|_| {
                    let c = gen_char(t);
                    // keep to characters every format can carry in a quoted string
                    if c == '\0' || (c as u32) < 0x20 && c != '\n' && c != '\t' || c == '\u{7f}' || c == '\r'
                        || ('\u{80}'..='\u{9f}').contains(&c) || c == '\u{2028}' || c == '\u{2029}' || c == '\u{feff}'
                        || c == '\u{fffe}' || c == '\u{ffff}' || c == '\u{10FFFF}'
                    {
                        'x'
                    } else {
                        c
                    }
                })
                .collect()
        }
    }
}

fn gen_key(t: &mut Tape, used: &[(String, GVal)]) -> String {
    for _ in 0..4 {
        let k = if t.chance(1, 4) { (*t.pick(&ODD_KEYS)).to_string() } else { (*t.pick(&PLAIN_KEYS)).to_string() };
        if !used.iter().any(|(u, _)| *u == k) {
            return k;
        }
    }
    let mut i = used.len();
    loop {
        let k = format!("f{}", i);
        if !used.iter().any(|(u, _)| *u == k) {
            return k;
        }
        i += 1;
    }
}

struct TreeOpts {
    null: bool,
    /// lists must hold one kind of value (TOML 0.5)
    homogeneous: bool,
}

fn gen_tree(t: &mut Tape, o: &TreeOpts, depth: u32) -> GVal {
    let leaf = depth >= 4;
    match t.weighted(&[if o.null { 2 } else { 0 }, 2, 5, 3, 6, if leaf { 0 } else { 4 }, if leaf { 0 } else { 5 }]) {
        0 => GVal::Null,
        1 => GVal::Bool(t.chance(1, 2)),
        2 => GVal::Int(gen_int(t)),
        3 => GVal::Float(gen_float(t, false)),
        4 => GVal::Str(gen_text(t, 10)),
        5 => {
            let n = t.choice(5);
            if o.homogeneous && n > 0 {
                // pick one kind for all elements
                let kind = t.choice(6);
                GVal::List(
                    (0..n)
                        .map(|_| match kind {
                            0 => GVal::Bool(t.chance(1, 2)),
                            1 => GVal::Int(gen_int(t)),
                            2 => GVal::Float(gen_float(t, false)),
                            3 => GVal::Str(gen_text(t, 8)),
                            4 => {
                                let m = t.choice(3);
                                GVal::List((0..m).map(|_| GVal::Int(gen_int(t))).collect())
                            }
                            _ => gen_tuple(t, o, depth + 1),
                        })
                        .collect(),
                )
            } else {
                GVal::List((0..n).map(|_| gen_tree(t, o, depth + 1)).collect())
            }
        }
        _ => gen_tuple(t, o, depth),
    }
}

fn gen_tuple(t: &mut Tape, o: &TreeOpts, depth: u32) -> GVal {
    let n = t.choice(5);
    let mut fs: Vec<(String, GVal)> = vec![];
    for _ in 0..n {
        let k = gen_key(t, &fs);
        let v = gen_tree(t, o, depth + 1);
        fs.push((k, v));
    }
    GVal::Tuple(fs)
}

// ------------------------------------------------------------------ emitters

fn float_text(f: f64, t: &mut Tape, allow_exp_only: bool) -> String {
    // a spelling that is a float in every format (has '.' or an exponent)
    fn dotted(s: String, allow_exp_only: bool) -> String {
        let mantissa_has_dot = s.split('e').next().unwrap_or("").contains('.');
        if mantissa_has_dot || (allow_exp_only && s.contains('e')) {
            s
        } else if s.contains('e') {
            s.replacen('e', ".0e", 1)
        } else {
            format!("{}.0", s)
        }
    }
    match t.choice(3) {
        0 => dotted(format!("{:?}", f), allow_exp_only), // shortest round-trip: "1.5", "1e300", "1e-7"
        1 => dotted(format!("{:e}", f), allow_exp_only), // "1.5e0"
        _ => dotted(format!("{:?}", f), false),
    }
}

fn json_string(s: &str, t: &mut Tape) -> String {
    let mut out = String::from("\"");
    for c in s.chars() {
        let mode = t.choice(5);
        match c {
            '"' => out.push_str("\\\""),
            '\\' => out.push_str("\\\\"),
            '\n' => out.push_str(if mode == 0 { "\\u000a" } else { "\\n" }),
            '\t' => out.push_str(if mode == 0 { "\\u0009" } else { "\\t" }),
            '/' if mode == 0 => out.push_str("\\/"),
            c if (c as u32) < 0x20 => out.push_str(&format!("\\u{:04x}", c as u32)),
            c if mode == 1 => {
                let mut buf = [0u16; 2];
                for u in c.encode_utf16(&mut buf) {
                    out.push_str(&format!("\\u{:04X}", u));
                }
            }
            c => out.push(c),
        }
    }
    out.push('"');
    out
}

fn emit_json(v: &GVal, t: &mut Tape, pretty: bool, indent: usize) -> String {
    let nl = |n: usize| if pretty { format!("\n{}", " ".repeat(n)) } else { String::new() };
    match v {
        GVal::Null => "null".into(),
        GVal::Bool(b) => b.to_string(),
        GVal::Int(i) => i.to_string(),
        GVal::Float(f) => float_text(*f, t, true),
        GVal::Str(s) => json_string(s, t),
        GVal::List(l) => {
            if l.is_empty() {
                return if t.chance(1, 3) { "[ ]".into() } else { "[]".into() };
            }
            let items: Vec<String> = l.iter().map(|e| emit_json(e, t, pretty, indent + 2)).collect();
            format!("[{}{}{}]", nl(indent + 2), items.join(&format!(",{}", if pretty { nl(indent + 2) } else { " ".into() })), nl(indent))
        }
        GVal::Tuple(fs) => {
            if fs.is_empty() {
                return "{}".into();
            }
            let items: Vec<String> = fs.iter().map(|(k, e)| format!("{}:{}{}", json_string(k, t), if pretty { " " } else { "" }, emit_json(e, t, pretty, indent + 2))).collect();
            format!("{{{}{}{}}}", nl(indent + 2), items.join(&format!(",{}", nl(indent + 2))), nl(indent))
        }
        GVal::Constraint => unreachable!(),
    }
}

fn yaml_plain_ok(s: &str) -> bool {
    // a plain scalar every YAML version reads as this string
    if s.is_empty() || s.len() > 30 {
        return false;
    }
    let first = s.chars().next().unwrap();
    if !first.is_ascii_alphabetic() {
        return false;
    }
    if !s.chars().all(|c| c.is_ascii_alphanumeric() || c == '_' || c == '-' || c == ' ') {
        return false;
    }
    if s.ends_with(' ') || s.contains("  ") {
        return false;
    }
    let l = s.to_ascii_lowercase();
    !["true", "false", "null", "yes", "no", "on", "off", "y", "n", "nan", "inf"].contains(&l.as_str())
}

fn yaml_scalar_string(s: &str, t: &mut Tape) -> String {
    let mode = t.choice(3);
    if mode == 0 && yaml_plain_ok(s) {
        return s.to_string();
    }
    if mode == 1 && !s.contains('\n') && !s.contains('\t') && s.chars().all(|c| !c.is_control()) {
        return format!("'{}'", s.replace('\'', "''"));
    }
    let mut out = String::from("\"");
    for c in s.chars() {
        match c {
            '"' => out.push_str("\\\""),
            '\\' => out.push_str("\\\\"),
            '\n' => out.push_str("\\n"),
            '\t' => out.push_str("\\t"),
            c if (c as u32) < 0x20 => out.push_str(&format!("\\x{:02x}", c as u32)),
            c if !c.is_ascii() && t.chance(1, 4) => {
                if (c as u32) <= 0xFFFF {
                    out.push_str(&format!("\\u{:04x}", c as u32));
                } else {
                    out.push_str(&format!("\\U{:08x}", c as u32));
                }
            }
            c => out.push(c),
        }
    }
    out.push('"');
    out
}

fn yaml_scalar(v: &GVal, t: &mut Tape) -> String {
    match v {
        GVal::Null => (*t.pick(&["null", "~", "Null"])).to_string(),
        GVal::Bool(b) => (if *b { *t.pick(&["true", "True"]) } else { *t.pick(&["false", "False"]) }).to_string(),
        GVal::Int(i) => {
            if *i >= 0 && *i < 100000 && t.chance(1, 6) {
                format!("0x{:X}", i)
            } else if *i >= 0 && *i < 100000 && t.chance(1, 6) {
                format!("0o{:o}", i)
            } else {
                i.to_string()
            }
        }
        GVal::Float(f) => float_text(*f, t, false),
        GVal::Str(s) => yaml_scalar_string(s, t),
        _ => unreachable!(),
    }
}

fn is_scalar(v: &GVal) -> bool {
    !matches!(v, GVal::List(_) | GVal::Tuple(_))
}

fn emit_yaml_flow(v: &GVal, t: &mut Tape) -> String {
    match v {
        GVal::List(l) => format!("[{}]", l.iter().map(|e| emit_yaml_flow(e, t)).collect::<Vec<_>>().join(", ")),
        GVal::Tuple(fs) => format!("{{{}}}", fs.iter().map(|(k, e)| format!("{}: {}", yaml_scalar_string(k, t).replace('\n', "\\n"), emit_yaml_flow(e, t))).collect::<Vec<_>>().join(", ")),
        other => {
            // plain scalars inside flow collections must not hold flow indicators: quote strings
            match other {
                GVal::Str(s) => {
                    let mut x = yaml_scalar_string(s, t);
                    if !x.starts_with('"') && !x.starts_with('\'') && !s.chars().all(|c| c.is_ascii_alphanumeric()) {
                        x = format!("'{}'", s.replace('\'', "''"));
                        if s.contains('\n') || s.contains('\t') {
                            x = format!("\"{}\"", s.replace('\\', "\\\\").replace('"', "\\\"").replace('\n', "\\n").replace('\t', "\\t"));
                        }
                    }
                    x
                }
                _ => yaml_scalar(other, t),
            }
        }
    }
}

fn yaml_key(k: &str, t: &mut Tape) -> String {
    let mut x = yaml_scalar_string(k, t);
    if !x.starts_with('"') && !x.starts_with('\'') && !k.chars().all(|c| c.is_ascii_alphanumeric() || c == '_') {
        x = format!("\"{}\"", k.replace('\\', "\\\\").replace('"', "\\\""));
    }
    x
}

fn block_scalar_ok(s: &str) -> bool {
    // multi-line printable text whose lines neither start nor end with blanks
    s.contains('\n')
        && !s.starts_with('\n')
        && s.split('\n').all(|l| !l.starts_with(' ') && !l.ends_with(' ') && l.chars().all(|c| !c.is_control() && c != '\u{85}' && c != '\u{a0}'))
        && !s.trim_end_matches('\n').split('\n').any(|l| l.is_empty())
}

fn emit_yaml_block(v: &GVal, t: &mut Tape, indent: usize, out: &mut String) {
    let pad = " ".repeat(indent);
    match v {
        GVal::Tuple(fs) if !fs.is_empty() => {
            for (k, e) in fs {
                out.push_str(&pad);
                out.push_str(&yaml_key(k, t));
                out.push(':');
                emit_yaml_value(e, t, indent, out);
            }
        }
        GVal::List(l) if !l.is_empty() => {
            for e in l {
                out.push_str(&pad);
                out.push('-');
                emit_yaml_value(e, t, indent, out);
            }
        }
        other => {
            out.push_str(&pad);
            out.push_str(&emit_yaml_flow(other, t));
            out.push('\n');
        }
    }
}

/// value after `key:` or `-` (the separator blank/newline included)
fn emit_yaml_value(e: &GVal, t: &mut Tape, indent: usize, out: &mut String) {
    match e {
        GVal::Tuple(fs) if !fs.is_empty() && !t.chance(1, 4) => {
            out.push('\n');
            emit_yaml_block(e, t, indent + 2, out);
        }
        GVal::List(l) if !l.is_empty() && !t.chance(1, 4) => {
            out.push('\n');
            emit_yaml_block(e, t, indent + 2, out);
        }
        GVal::Str(s) if block_scalar_ok(s) && t.chance(1, 2) => {
            let body = s.trim_end_matches('\n');
            let trailing = s.len() - body.len();
            let ind = match trailing {
                0 => "|-",
                1 => "|",
                _ => "|+",
            };
            out.push(' ');
            out.push_str(ind);
            out.push('\n');
            for l in body.split('\n') {
                out.push_str(&" ".repeat(indent + 2));
                out.push_str(l);
                out.push('\n');
            }
            for _ in 1..trailing {
                out.push('\n');
            }
        }
        GVal::Null if t.chance(1, 4) => out.push('\n'),
        other => {
            out.push(' ');
            if is_scalar(other) {
                out.push_str(&yaml_scalar(other, t));
            } else {
                out.push_str(&emit_yaml_flow(other, t));
            }
            if t.chance(1, 10) {
                out.push_str(" # note");
            }
            out.push('\n');
        }
    }
}

fn emit_yaml(v: &GVal, t: &mut Tape) -> String {
    let mut out = String::new();
    if t.chance(1, 3) {
        out.push_str("---\n");
    }
    if t.chance(1, 6) {
        out.push_str("# generated\n");
    }
    emit_yaml_block(v, t, 0, &mut out);
    out
}

fn toml_key(k: &str) -> String {
    if !k.is_empty() && k.chars().all(|c| c.is_ascii_alphanumeric() || c == '_' || c == '-') {
        k.to_string()
    } else {
        toml_basic(k)
    }
}

fn toml_basic(s: &str) -> String {
    let mut out = String::from("\"");
    for c in s.chars() {
        match c {
            '"' => out.push_str("\\\""),
            '\\' => out.push_str("\\\\"),
            '\n' => out.push_str("\\n"),
            '\t' => out.push_str("\\t"),
            c if (c as u32) < 0x20 || c == '\u{7f}' => out.push_str(&format!("\\u{:04X}", c as u32)),
            c => out.push(c),
        }
    }
    out.push('"');
    out
}

fn toml_string(s: &str, t: &mut Tape) -> String {
    match t.choice(4) {
        1 if !s.contains('\'') && !s.contains('\n') && s.chars().all(|c| !c.is_control() || c == '\t') => format!("'{}'", s),
        2 if s.contains('\n') && !s.contains("\"\"") && !s.ends_with('"') && !s.contains('\\') && s.chars().all(|c| !c.is_control() || c == '\n' || c == '\t') => {
            // multi-line basic string; a newline right after the opening quotes is trimmed
            format!("\"\"\"\n{}\"\"\"", s)
        }
        3 if s.contains('\n') && !s.contains("''") && !s.ends_with('\'') && s.chars().all(|c| !c.is_control() || c == '\n' || c == '\t') => format!("'''\n{}'''", s),
        _ => toml_basic(s),
    }
}

fn toml_value(v: &GVal, t: &mut Tape) -> String {
    match v {
        GVal::Bool(b) => b.to_string(),
        GVal::Int(i) => {
            if *i >= 1000 && t.chance(1, 5) {
                // underscores between digits
                let s = i.to_string();
                let (a, b) = s.split_at(s.len() - 3);
                format!("{}_{}", a, b)
            } else if *i >= 0 && *i < 100000 && t.chance(1, 8) {
                format!("0x{:X}", i)
            } else {
                i.to_string()
            }
        }
        GVal::Float(f) => float_text(*f, t, true),
        GVal::Str(s) => toml_string(s, t),
        GVal::List(l) => format!("[{}]", l.iter().map(|e| toml_value(e, t)).collect::<Vec<_>>().join(", ")),
        GVal::Tuple(fs) => format!("{{ {} }}", fs.iter().map(|(k, e)| format!("{} = {}", toml_key(k), toml_value(e, t))).collect::<Vec<_>>().join(", ")).replace("{  }", "{}"),
        _ => unreachable!(),
    }
}

fn emit_toml_table(path: &[String], fs: &[(String, GVal)], t: &mut Tape, out: &mut String) {
    // simple values first, then sub-tables and arrays of tables
    let mut later: Vec<(&String, &GVal, bool)> = vec![];
    for (k, v) in fs {
        match v {
            GVal::Tuple(_) if t.chance(2, 3) => later.push((k, v, false)),
            GVal::List(l) if !l.is_empty() && l.iter().all(|e| matches!(e, GVal::Tuple(_))) && t.chance(2, 3) => later.push((k, v, true)),
            _ => {
                out.push_str(&format!("{} = {}\n", toml_key(k), toml_value(v, t)));
            }
        }
    }
    for (k, v, aot) in later {
        let mut p = path.to_vec();
        p.push(toml_key(k));
        if aot {
            if let GVal::List(l) = v {
                for e in l {
                    if let GVal::Tuple(inner) = e {
                        out.push_str(&format!("\n[[{}]]\n", p.join(".")));
                        emit_toml_table(&p, inner, t, out);
                    }
                }
            }
        } else if let GVal::Tuple(inner) = v {
            out.push_str(&format!("\n[{}]\n", p.join(".")));
            emit_toml_table(&p, inner, t, out);
        }
    }
}

fn emit_toml(v: &GVal, t: &mut Tape) -> String {
    let mut out = String::new();
    if t.chance(1, 5) {
        out.push_str("# generated\n");
    }
    if let GVal::Tuple(fs) = v {
        emit_toml_table(&[], fs, t, &mut out);
    }
    out
}

// ------------------------------------------------------------------ comparison

fn val_to_gval(v: &Val) -> GVal {
    GVal::from_val(v)
}

fn same_value(want: &GVal, got: &GVal, path: &str) -> Result<(), String> {
    match (want, got) {
        (GVal::Null, GVal::Null) => Ok(()),
        (GVal::Bool(a), GVal::Bool(b)) if a == b => Ok(()),
        (GVal::Int(a), GVal::Int(b)) if a == b => Ok(()),
        // `-0` without a fraction: an integer zero for one decoder, a negative zero float for
        // another; the same number
        (GVal::Int(0), GVal::Float(b)) if *b == 0.0 => Ok(()),
        (GVal::Float(a), GVal::Float(b)) if a == b || (a.is_nan() && b.is_nan()) => Ok(()),
        (GVal::Str(a), GVal::Str(b)) if a == b => Ok(()),
        (GVal::List(a), GVal::List(b)) => {
            if a.len() != b.len() {
                return Err(format!("at {}: list of {} items included as {} items", path, a.len(), b.len()));
            }
            for (i, (x, y)) in a.iter().zip(b).enumerate() {
                same_value(x, y, &format!("{}[{}]", path, i))?;
            }
            Ok(())
        }
        (GVal::Tuple(a), GVal::Tuple(b)) => {
            if a.len() != b.len() {
                return Err(format!("at {}: keys {:?} included as {:?}", path, a.iter().map(|(k, _)| k).collect::<Vec<_>>(), b.iter().map(|(k, _)| k).collect::<Vec<_>>()));
            }
            for (k, x) in a {
                match b.iter().find(|(k2, _)| k2 == k) {
                    Some((_, y)) => same_value(x, y, &format!("{}.{:?}", path, k))?,
                    None => return Err(format!("at {}: key {:?} missing; included keys {:?}", path, k, b.iter().map(|(k, _)| k).collect::<Vec<_>>())),
                }
            }
            Ok(())
        }
        _ => Err(format!("at {}: {} included as {}", path, clipv(&want.show()), clipv(&got.show()))),
    }
}

fn clipv(s: &str) -> String {
    if s.chars().count() > 160 {
        format!("{}…", s.chars().take(160).collect::<String>())
    } else {
        s.to_string()
    }
}

/// Python tree -> GVal, None when it holds something outside the agreed subset
/// (duplicate or non-string keys, datetimes, integers beyond 64 bits)
fn dtree_to_gval(d: &DTree) -> Option<GVal> {
    Some(match d {
        DTree::Null => GVal::Null,
        DTree::Bool(b) => GVal::Bool(*b),
        DTree::Int(s) => GVal::Int(s.parse::<i64>().ok()?),
        // a numeral that overflows to infinity is read differently by decoders (inf, error, string)
        DTree::Float(f) if !f.is_finite() => return None,
        DTree::Float(f) => GVal::Float(*f),
        DTree::Str(s) => GVal::Str(s.clone()),
        DTree::List(l) => GVal::List(l.iter().map(dtree_to_gval).collect::<Option<Vec<_>>>()?),
        DTree::Map(m) => {
            let mut fs: Vec<(String, GVal)> = vec![];
            for (k, v) in m {
                let k = match k {
                    DTree::Str(s) => s.clone(),
                    _ => return None,
                };
                if fs.iter().any(|(u, _)| *u == k) {
                    return None;
                }
                fs.push((k, dtree_to_gval(v)?));
            }
            GVal::Tuple(fs)
        }
        DTree::Datetime(_) | DTree::Docs(_) => return None,
    })
}

fn b64(bytes: &[u8], url: bool) -> String {
    let table: &[u8] = if url {
        b"ABCDEFGHIJKLMNOPQRSTUVWXYZabcdefghijklmnopqrstuvwxyz0123456789-_"
    } else {
        b"ABCDEFGHIJKLMNOPQRSTUVWXYZabcdefghijklmnopqrstuvwxyz0123456789+/"
    };
    let mut out = String::new();
    for ch in bytes.chunks(3) {
        let b0 = ch[0] as u32;
        let b1 = *ch.get(1).unwrap_or(&0) as u32;
        let b2 = *ch.get(2).unwrap_or(&0) as u32;
        let n = (b0 << 16) | (b1 << 8) | b2;
        out.push(table[((n >> 18) & 63) as usize] as char);
        out.push(table[((n >> 12) & 63) as usize] as char);
        out.push(if ch.len() > 1 { table[((n >> 6) & 63) as usize] as char } else { '=' });
        out.push(if ch.len() > 2 { table[(n & 63) as usize] as char } else { '=' });
    }
    out
}

impl C15 {
    pub fn new(_tier: Tier) -> Self {
        C15 { py: None, ucg: Ucg::new(), strict: true }
    }

    fn py(&mut self) -> &mut PyOracle {
        if self.py.is_none() {
            self.py = Some(PyOracle::start().unwrap_or_else(|e| panic!("harness: cannot start decoder service: {}", e)));
        }
        self.py.as_mut().unwrap()
    }

    /// build `let v = include <typ> "<file>";` next to a file holding `bytes`
    fn include(&mut self, typ: &str, file_name: &str, bytes: &[u8]) -> Result<GVal, String> {
        self.ucg.reset();
        let main = self.ucg.fresh_path("main", "ucg");
        let dir = main.parent().unwrap().to_path_buf();
        std::fs::write(dir.join(file_name), bytes).expect("write data file");
        std::fs::write(&main, format!("let v = include {} \"./{}\";\n", typ, file_name)).expect("write main");
        let r = self.ucg.build(&main, self.strict);
        let out = match r {
            Ok(v) => match v.as_ref() {
                Val::Tuple(fs) => match fs.iter().find(|(k, _)| k.as_ref() == "v") {
                    Some((_, v)) => Ok(val_to_gval(v)),
                    None => Err("the build binds no `v`".to_string()),
                },
                _ => Err("the build result is not a tuple".to_string()),
            },
            Err(e) => Err(e),
        };
        self.ucg.cleanup_case_dir(&main);
        out
    }

    /// the case under the default strict mode and, when that holds, once more under
    /// `--no-strict`: the property does not depend on the mode
    fn check(&mut self, typ: &str, bytes: &[u8], want: Option<&GVal>, label: &str, nontrivial: bool) -> Outcome {
        self.strict = true;
        let o = self.check_mode(typ, bytes, want, label, nontrivial);
        if o.is_fail() {
            return o;
        }
        self.strict = false;
        let mut o2 = self.check_mode(typ, bytes, want, label, nontrivial);
        self.strict = true;
        if o2.is_fail() {
            o2.note_mode("with --no-strict (the strict build of the same case is fine)");
            return o2;
        }
        o
    }

    fn check_raw(&mut self, typ: &str, bytes: &[u8]) -> Outcome {
        self.strict = true;
        let o = self.check_raw_mode(typ, bytes);
        if o.is_fail() {
            return o;
        }
        self.strict = false;
        let mut o2 = self.check_raw_mode(typ, bytes);
        self.strict = true;
        if o2.is_fail() {
            o2.note_mode("with --no-strict (the strict build of the same case is fine)");
            return o2;
        }
        o
    }

    fn check_mode(&mut self, typ: &str, bytes: &[u8], want: Option<&GVal>, label: &str, nontrivial: bool) -> Outcome {
        let shown = String::from_utf8_lossy(bytes).into_owned();
        let rendered = format!("include {} <- {}", typ, clipv(&format!("{:?}", shown)));
        let mut o = Outcome::pass(rendered.clone());
        o.key = fnv(format!("{}{}", typ, shown).as_bytes());
        o.class(typ);
        o.class(label);
        o.nontrivial = nontrivial;
        {
            use base64::Engine;
            o.portable = Some(serde_json::json!({"typ": typ, "data_b64": base64::engine::general_purpose::STANDARD.encode(bytes)}).to_string());
        }
        let fmt = typ;
        let ext = match typ {
            "json" => "data.json",
            "yaml" => "data.yaml",
            "toml" => "data.toml",
            _ => "data.bin",
        };
        // independent reading of the same bytes
        let py = if matches!(typ, "json" | "yaml" | "toml") {
            match self.py().decode_tree(fmt, bytes) {
                Ok(r) => Some(r),
                Err(e) => panic!("harness: decoder service failed: {}", e),
            }
        } else {
            None
        };
        if bytes.is_empty() && want.is_none() {
            // the implementation deliberately maps a zero-length data file to NULL; the property is silent
            o.class("empty-file");
            return o;
        }
        let got = self.include(typ, ext, bytes);
        match (want, py) {
            (Some(w), Some(p)) => {
                // a document of our own emitter: Python must agree with the intended tree
                match &p {
                    Ok(d) => {
                        if let Err(why) = same_data(w, d, "$") {
                            panic!("harness: emitter self-check failed ({}): intended {} but Python reads the document differently\n{}", why, w.show(), shown);
                        }
                    }
                    Err(e) => panic!("harness: emitter self-check failed: Python rejects the generated {} document ({})\n{}", typ, e, shown),
                }
                match got {
                    Ok(g) => {
                        if let Err(why) = same_value(w, &g, "$") {
                            o.fail(&format!("C15/{}-decodes-differently", typ), format!("{}\ndocument:\n{}\nexpected: {}\nincluded: {}", why, clipv(&shown), clipv(&w.show()), clipv(&g.show())));
                        }
                    }
                    Err(e) => o.fail(&format!("C15/{}-valid-document-rejected", typ), format!("a well-formed {} document fails to include: {}\ndocument:\n{}", typ, e, clipv(&shown))),
                }
            }
            (None, Some(p)) => {
                // corrupted / truncated variant: the Python decoder decides
                match (p, got) {
                    (Err(_), Err(_)) => o.class("malformed-rejected"),
                    (Err(e), Ok(g)) => {
                        // bytes that are not UTF-8 are not a document of any of the three formats
                        if typ == "yaml" && std::str::from_utf8(bytes).is_ok() {
                            o.class("decoder-disagreement");
                        } else {
                            o.fail(&format!("C15/{}-malformed-accepted", typ), format!("the {} decoder rejects this text ({}) but include yields {}\ntext:\n{}", typ, e, clipv(&g.show()), clipv(&shown)));
                        }
                    }
                    (Ok(d), Ok(g)) => match dtree_to_gval(&d) {
                        Some(w) => {
                            if bytes.is_empty() || (typ == "yaml" && matches!(w, GVal::Null) && shown.trim().is_empty()) {
                                o.class("empty-file");
                            } else if let Err(why) = same_value(&w, &g, "$") {
                                o.fail(&format!("C15/{}-decodes-differently", typ), format!("{}\ntext:\n{}\nindependent decoder: {}\nincluded: {}", why, clipv(&shown), clipv(&w.show()), clipv(&g.show())));
                            } else {
                                o.class("variant-still-valid");
                            }
                        }
                        None => o.class("outside-agreed-subset"),
                    },
                    (Ok(_), Err(_)) => o.class("decoder-disagreement"),
                }
            }
            _ => unreachable!(),
        }
        o
    }

    fn check_raw_mode(&mut self, typ: &str, bytes: &[u8]) -> Outcome {
        let shown = String::from_utf8_lossy(bytes).into_owned();
        let rendered = format!("include {} <- {} bytes {}", typ, bytes.len(), clipv(&format!("{:?}", shown)));
        let mut o = Outcome::pass(rendered.clone());
        o.key = fnv(format!("{}{:?}", typ, bytes).as_bytes());
        o.class(typ);
        {
            use base64::Engine;
            o.portable = Some(serde_json::json!({"typ": typ, "data_b64": base64::engine::general_purpose::STANDARD.encode(bytes)}).to_string());
        }
        let utf8 = std::str::from_utf8(bytes).ok();
        o.nontrivial = bytes.is_empty() || utf8.is_none() || !bytes.is_ascii() || bytes.len() % 3 != 0;
        let got = self.include(typ, "data.bin", bytes);
        match typ {
            "str" => match (utf8, got) {
                (Some(text), Ok(GVal::Str(s))) if s == text => {}
                (Some(text), other) => o.fail("C15/str-altered", format!("include str of {:?} yields {:?}", text, other)),
                (None, Err(_)) => o.class("not-text-rejected"),
                (None, Ok(g)) => o.fail("C15/str-of-non-text", format!("the file is not UTF-8 text but include str yields {}", clipv(&g.show()))),
            },
            "b64" | "b64urlsafe" => {
                let want = b64(bytes, typ == "b64urlsafe");
                match got {
                    Ok(GVal::Str(s)) if s == want => {}
                    other => o.fail(&format!("C15/{}-wrong", typ), format!("include {} of {} bytes {:?} should be {:?} but is {:?}", typ, bytes.len(), clipv(&format!("{:?}", bytes)), want, other)),
                }
            }
            _ => {
                // unknown include type
                o.class("unknown-type");
                if let Ok(g) = got {
                    o.fail("C15/unknown-type-accepted", format!("include {} is not a known type but yields {}", typ, clipv(&g.show())));
                }
            }
        }
        o
    }
}

impl C15 {
    /// `let v0 = include t0 f; let v1 = include t1 f; …` in one build: every binding
    /// must equal what the same include yields alone.
    fn check_multi(&mut self, typs: &[&str], bytes: &[u8]) -> Outcome {
        let rendered = format!("includes {:?} of one file <- {:?}", typs, String::from_utf8_lossy(bytes));
        let mut o = Outcome::pass(rendered.clone());
        o.key = fnv(rendered.as_bytes());
        o.class("multi-include");
        o.nontrivial = true;
        // alone
        let mut alone = vec![];
        for ty in typs {
            alone.push(self.include(ty, "data.bin", bytes));
        }
        // together
        self.ucg.reset();
        let main = self.ucg.fresh_path("main", "ucg");
        let dir = main.parent().unwrap().to_path_buf();
        std::fs::write(dir.join("data.bin"), bytes).expect("write data file");
        let mut src = String::new();
        let mut expect_ok = true;
        for (i, ty) in typs.iter().enumerate() {
            src.push_str(&format!("let v{} = include {} \"./data.bin\";\n", i, ty));
            if alone[i].is_err() {
                expect_ok = false;
            }
        }
        std::fs::write(&main, &src).expect("write main");
        let r = self.ucg.build(&main, true);
        match (r, expect_ok) {
            (Ok(v), true) => {
                if let Val::Tuple(fs) = v.as_ref() {
                    for (i, ty) in typs.iter().enumerate() {
                        let got = fs.iter().find(|(k, _)| k.as_ref() == format!("v{}", i)).map(|(_, v)| val_to_gval(v));
                        let want = alone[i].as_ref().ok();
                        if got.as_ref() != want {
                            o.fail("C15/include-depends-on-other-includes", format!("`include {}` of the file yields {:?} alone but {:?} when the file is also included as {:?} in the same build\n{}", ty, want.map(|w| w.show()), got.map(|g| g.show()), typs, src));
                            break;
                        }
                    }
                }
            }
            (Err(_), false) => {}
            (Ok(_), false) => o.fail("C15/include-depends-on-other-includes", format!("one of the includes fails alone but the combined build succeeds\n{}", src)),
            (Err(e), true) => o.fail("C15/include-depends-on-other-includes", format!("every include works alone but the combined build fails: {}\n{}", e, src)),
        }
        self.ucg.cleanup_case_dir(&main);
        o
    }
}

fn corrupt(text: &str, t: &mut Tape) -> Vec<u8> {
    let b = text.as_bytes();
    if b.is_empty() {
        return vec![];
    }
    // operate on char boundaries so the result stays UTF-8 (include reads text)
    let idxs: Vec<usize> = text.char_indices().map(|(i, _)| i).collect();
    let at = idxs[t.choice(idxs.len())];
    match t.choice(5) {
        4 => {
            // a stray byte that makes the file invalid UTF-8 (inserted, or replacing a character)
            let bad: &[u8] = *t.pick(&[&b"\xe9"[..], &b"\xff"[..], &b"\xc3"[..], &b"\xed\xa0\x80"[..], &b"\xc0\xaf"[..]]);
            let end = if t.chance(1, 2) { at } else { idxs.iter().find(|i| **i > at).copied().unwrap_or(b.len()) };
            let mut v = b[..at].to_vec();
            v.extend_from_slice(bad);
            v.extend_from_slice(&b[end..]);
            v
        }
        0 => b[..at].to_vec(),
        1 => {
            let ins = *t.pick(&["{", "}", "[", "]", "\"", ":", ",", "=", "'", "-", " ", "\n"]);
            let mut v = b[..at].to_vec();
            v.extend_from_slice(ins.as_bytes());
            v.extend_from_slice(&b[at..]);
            v
        }
        2 => {
            let end = idxs.iter().find(|i| **i > at).copied().unwrap_or(b.len());
            let mut v = b[..at].to_vec();
            v.extend_from_slice(&b[end..]);
            v
        }
        _ => {
            // cut from the front
            b[at..].to_vec()
        }
    }
}

impl Property for C15 {
    fn id(&self) -> &'static str {
        "C15"
    }
    fn rule(&self) -> String {
        "generated trees (nested containers, i64 extremes, floats, Unicode and format-significant strings, keys needing quotes) written as JSON / YAML / TOML documents by the harness's own emitters (escape forms, block/flow styles, quoted/plain/block scalars, tables/inline tables/arrays of tables, alternative number spellings) and included through a built file, in strict mode and again under --no-strict; truncated / corrupted variants of each document, judged by the Python decoder; arbitrary text for `include str`, arbitrary bytes for b64 / b64urlsafe; unknown include types. Non-trivial: a nested container, a non-ASCII or escaped string, an integer beyond 2^53, a corrupted variant, or (raw) empty / non-UTF-8 / non-multiple-of-3 input; distinct by (type, file bytes).".into()
    }
    fn assumptions(&self) -> Vec<String> {
        vec![
            "Python json, tomllib and PyYAML (YAML 1.2 core schema) must agree with the intended tree before a document is used (emitter self-check, a disagreement is a harness error)".into(),
            "documents keep to constructs on which decoders agree: unique string keys, no anchors/tags/merge keys, integers within 64 bits, homogeneous TOML arrays, no datetimes".into(),
            "for corrupted YAML a reject/accept disagreement between PyYAML and the implementation is counted, not alarmed; an empty file is excluded (the property is silent)".into(),
            "include str of a file that is not UTF-8 may be rejected".into(),
        ]
    }
    fn budget(&self, tier: Tier) -> Budget {
        Budget {
            cases: match tier {
                Tier::Quick => 16_000,
                Tier::Thorough => 300_000,
            },
            tape_min: 4,
            tape_max: 220,
        }
    }
    fn run_tape(&mut self, words: &[u32]) -> Outcome {
        let mut t = Tape::new(words);
        match t.weighted(&[4, 4, 4, 2, 2, 1, 2]) {
            k @ 0..=2 => {
                let typ = ["json", "yaml", "toml"][k];
                let opts = TreeOpts { null: typ != "toml", homogeneous: typ == "toml" };
                let tree = if typ == "toml" || t.chance(3, 4) { gen_tuple(&mut t, &opts, 0) } else { gen_tree(&mut t, &opts, 0) };
                let text = match typ {
                    "json" => {
                        let pretty = t.chance(1, 2);
                        emit_json(&tree, &mut t, pretty, 0)
                    }
                    "yaml" => emit_yaml(&tree, &mut t),
                    _ => emit_toml(&tree, &mut t),
                };
                let nt = tree.depth() >= 2
                    || tree.any(|x| matches!(x, GVal::Str(s) if !s.is_ascii() || s.contains('\n') || s.contains('"') || s.contains('\\')))
                    || tree.any(|x| matches!(x, GVal::Int(i) if i.unsigned_abs() > (1u64 << 53)));
                if t.chance(1, 20) {
                    // whitespace-only data file
                    let ws = *t.pick(&[" ", "\n", " \n", "\t\n ", "\n\n"]);
                    self.check(typ, ws.as_bytes(), None, "whitespace-only", true)
                } else if t.chance(1, 4) {
                    let bytes = corrupt(&text, &mut t);
                    self.check(typ, &bytes, None, "corrupted", true)
                } else {
                    if text.trim().is_empty() {
                        return Outcome::discard("empty document", text);
                    }
                    self.check(typ, text.as_bytes(), Some(&tree), "generated-document", nt)
                }
            }
            3 => {
                let text = {
                    let n = t.choice(40);
                    (0..n).map(|_| gen_char(&mut t)).collect::<String>()
                };
                if t.chance(1, 5) {
                    // not text: a stray byte somewhere
                    let mut bytes = text.into_bytes();
                    let at = t.choice(bytes.len() + 1);
                    bytes.insert(at, *t.pick(&[0xe9u8, 0xff, 0xc3, 0x80]));
                    if std::str::from_utf8(&bytes).is_ok() {
                        bytes.push(0xff);
                    }
                    self.check_raw("str", &bytes)
                } else {
                    self.check_raw("str", text.as_bytes())
                }
            }
            4 => {
                // mostly short; sometimes longer than any internal block size (1 KiB, 4 KiB)
                let n = if t.chance(1, 8) { *t.pick(&[1023usize, 1024, 1025, 2047, 2048, 2049, 3000, 4097]) } else { t.choice(40) };
                let bytes: Vec<u8> = if t.chance(1, 6) {
                    t.pick(&[&b" "[..], &b"\n"[..], &b" \n\t"[..], &b"\r\n"[..], &b"\0"[..], &b"\xff"[..]]).to_vec()
                } else {
                    (0..n).map(|_| t.range(0, 255) as u8).collect()
                };
                let typ = if t.chance(1, 2) { "b64" } else { "b64urlsafe" };
                self.check_raw(typ, &bytes)
            }
            5 => {
                let typ = *t.pick(&["xml", "jsn", "b64url", "ini", "string", "yml", "STR", "Json"]);
                let data: &[u8] = *t.pick(&[&b"{}"[..], &b""[..], &b" "[..], &b"a"[..]]);
                self.check_raw(typ, data)
            }
            _ => {
                // one data file included several times under different types in one build
                let n = 1 + t.choice(12);
                let mut bytes: Vec<u8> = match t.choice(3) {
                    0 => (0..n).map(|_| t.range(0, 255) as u8).collect(),
                    1 => b"{\"port\": 8080, \"name\": \"x?>~\"}".to_vec(),
                    _ => (0..n).map(|_| *t.pick(&[b'?', b'>', b'~', b'a', 0xfb, 0xff, 0x3e])).collect(),
                };
                if t.chance(1, 2) {
                    bytes.retain(|b| b.is_ascii());
                }
                let k = 2 + t.choice(2);
                let typs: Vec<&str> = (0..k).map(|_| *t.pick(&["b64", "b64urlsafe", "str", "json", "b64", "b64urlsafe"])).collect();
                self.check_multi(&typs, &bytes)
            }
        }
    }
    fn run_text(&mut self, text: &str) -> Outcome {
        use base64::Engine;
        let j: serde_json::Value = serde_json::from_str(text).expect("replay text is JSON");
        let typ = j.get("typ").and_then(|t| t.as_str()).expect("typ").to_string();
        let bytes = base64::engine::general_purpose::STANDARD
            .decode(j.get("data_b64").and_then(|d| d.as_str()).expect("data"))
            .expect("base64");
        match typ.as_str() {
            "json" | "yaml" | "toml" => self.check(&typ, &bytes, None, "replay", true),
            other => self.check_raw(other, &bytes),
        }
    }
}
