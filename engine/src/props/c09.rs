//! C09 — imports resolve against the importing file, run once, and cycles are errors.
//!
//! Oracle: the path-resolution / evaluate-once / cycle model computed by the
//! generator from the project's import graph, observed through the real binary
//! from three working directories.

use crate::cli;
use crate::core::*;
use crate::tape::{fnv, Tape};
use std::path::{Path, PathBuf};

pub struct C09 {
    home: PathBuf,
}

#[derive(Clone, Debug, serde::Serialize, serde::Deserialize)]
struct PF {
    /// path relative to the project root
    rel: String,
    v: i64,
    /// (index of the imported file, spelling of the path, syntactic position)
    imports: Vec<(usize, String, String)>,
    /// files that share a trace id (and everything else) are byte-identical twins
    #[serde(default)]
    trace: Option<String>,
}

const POSITIONS: [&str; 16] = [
    "top-level-let", "function-body", "map-callback", "filter-callback", "reduce-callback", "module-body", "module-out-expression", "select-arm", "tuple-field", "call-argument", "format-argument",
    "nested-function", "format-expression-argument", "deferred-in-helper-function", "format-template", "include-str",
];

fn dir_of(rel: &str) -> Vec<String> {
    let mut parts: Vec<String> = rel.split('/').map(|s| s.to_string()).collect();
    parts.pop();
    parts
}

/// a relative spelling of `to` as seen from the directory of `from`
fn spell(from: &str, to: &str, t: &mut Tape) -> String {
    let fd = dir_of(from);
    let td = dir_of(to);
    let file = to.rsplit('/').next().unwrap();
    let mut common = 0;
    while common < fd.len() && common < td.len() && fd[common] == td[common] {
        common += 1;
    }
    let mut segs: Vec<String> = vec![];
    for _ in common..fd.len() {
        segs.push("..".into());
    }
    for d in &td[common..] {
        segs.push(d.clone());
    }
    segs.push(file.to_string());
    let mut s = segs.join("/");
    match t.choice(5) {
        4 => {
            // an absolute spelling, with or without redundant segments (@ROOT@ = the project root)
            s = match t.choice(4) {
                0 => format!("@ROOT@/{}", to),
                1 => format!("@ROOT@/./{}", to),
                2 => format!("@ROOT@//{}", to),
                _ => match td.first() {
                    Some(first) => format!("@ROOT@/{}/../{}", first, to),
                    None => format!("@ROOT@/./{}", to),
                },
            };
        }
        0 => {}
        1 => s = format!("./{}", s),
        2 => {
            // a redundant detour through a directory of the target's path
            if let Some(first) = td.first() {
                let ups: String = std::iter::repeat("../").take(fd.len()).collect();
                s = format!("{}{}/../{}", ups, first, to);
                if fd.is_empty() {
                    s = format!("./{}", s);
                }
            } else {
                s = format!("./{}", s);
            }
        }
        _ => {
            if !s.starts_with("..") {
                s = format!("./{}", s);
            } else {
                s = s.replacen("../", ".././", 1);
            }
        }
    }
    s
}

fn helper_name(file_idx: usize, import_idx: usize) -> String {
    format!("hlp_{}_{}.ucg", file_idx, import_idx)
}

/// (path relative to the root, source) of the helper files the deferred imports go through
fn helper_files(files: &[PF]) -> Vec<(String, String)> {
    let mut out = vec![];
    for (i, f) in files.iter().enumerate() {
        for (k, (j, _, pos)) in f.imports.iter().enumerate() {
            if pos == "deferred-in-helper-function" {
                out.push((
                    helper_name(i, k),
                    format!("let df = func () => int(\"@{{item.app}}\" % {{app = (import \"./{}\").total}});\n", files[*j].rel),
                ));
            }
        }
    }
    out
}

fn import_value_expr(path: &str) -> String {
    format!("(import \"{}\").total", path)
}

fn trace_id(f: &PF, idx: usize) -> String {
    match &f.trace {
        Some(t) => format!("trace-of-file-{}", t),
        None => format!("trace-of-file-{}", idx),
    }
}

fn render_file(f: &PF, idx: usize) -> String {
    let mut s = String::new();
    s.push_str(&format!("let t = TRACE \"{}\";\n", trace_id(f, idx)));
    s.push_str(&format!("let v = {};\n", f.v));
    let mut terms = vec!["v".to_string()];
    for (k, (_, path, pos)) in f.imports.iter().enumerate() {
        let iv = import_value_expr(path);
        let name = format!("x{}", k);
        match pos.as_str() {
            "top-level-let" => {
                s.push_str(&format!("let i{} = import \"{}\";\nlet {} = i{}.total;\n", k, path, name, k));
            }
            "function-body" => s.push_str(&format!("let f{} = func () => {};\nlet {} = f{}();\n", k, iv, name, k)),
            "nested-function" => s.push_str(&format!("let f{} = func () => func (q) => q + {};\nlet g{} = f{}();\nlet {} = g{}(0);\n", k, iv, k, k, name, k)),
            "map-callback" => s.push_str(&format!("let {} = map(func (q) => q + {}, [0]).0;\n", name, iv)),
            "filter-callback" => s.push_str(&format!("let {} = filter(func (q) => q == {}, [{}, 0 - 1]).0;\n", name, iv, "0 - 1 + 1 + ".to_string() + &iv)),
            "reduce-callback" => s.push_str(&format!("let {} = reduce(func (acc, q) => acc + q + {}, 0, [0]);\n", name, iv)),
            "module-body" => s.push_str(&format!("let m{} = module {{}} => (r) {{ let r = {}; }};\nlet {} = m{}{{}};\n", k, iv, name, k)),
            "module-out-expression" => s.push_str(&format!("let m{} = module {{}} => ({}) {{ let unused = 1; }};\nlet {} = m{}{{}};\n", k, iv, name, k)),
            "select-arm" => s.push_str(&format!("let {} = select (\"a\", 0) => {{a = {}}};\n", name, iv)),
            "tuple-field" => s.push_str(&format!("let {} = {{fld = {}}}.fld;\n", name, iv)),
            "call-argument" => s.push_str(&format!("let id{} = func (q) => q;\nlet {} = id{}({});\n", k, name, k, iv)),
            "format-argument" => s.push_str(&format!("let {} = int(\"@\" % ({}));\n", name, iv)),
            "format-template" => s.push_str(&format!("let {} = int(\"@{{(import \\\"{}\\\").total}}\" % 1);\n", name, path)),
            "format-expression-argument" => s.push_str(&format!("let {} = int(\"@{{item.app}}\" % {{app = {}}});\n", name, iv)),
            "deferred-in-helper-function" => {
                // the import sits in a function of a helper file that has long finished importing
                // when this file calls it (the helper lives in the project root, see helper_files)
                let ups: String = std::iter::repeat("../").take(dir_of(&f.rel).len()).collect();
                s.push_str(&format!("let h{} = import \"{}{}\";\nlet {} = h{}.df();\n", k, if ups.is_empty() { "./".to_string() } else { ups }, helper_name(idx, k), name, k));
            }
            _ => {
                // include str of the imported file's source next to an ordinary import
                s.push_str(&format!("let inc{} = include str \"{}\";\nlet {} = select (inc{} == \"\", {}) => {{true = 0 - 1}};\n", k, path, name, k, iv));
            }
        }
        terms.push(name);
    }
    s.push_str(&format!("let total = {};\n", terms.join(" + ")));
    s.push_str("out json {total = total};\n");
    s
}

impl C09 {
    pub fn new(_tier: Tier) -> Self {
        C09 { home: crate::ucgrun::new_scratch_dir("c09home") }
    }

    fn gen_project(&self, t: &mut Tape) -> (Vec<PF>, bool) {
        let n = 2 + t.choice(7);
        let dirs = ["", "lib", "lib/inner", "conf", "conf/x/y"];
        let mut files: Vec<PF> = vec![];
        for i in 0..n {
            let d = dirs[t.choice(dirs.len())];
            let rel = if d.is_empty() { format!("f{}.ucg", i) } else { format!("{}/f{}.ucg", d, i) };
            files.push(PF { rel, v: 1 << i, imports: vec![], trace: None });
        }
        // DAG: file i imports later files (entry = file 0)
        for i in 0..n {
            let k = if i + 1 < n { t.weighted(&[2, 4, 3, 1]) } else { 0 };
            for _ in 0..k {
                let j = i + 1 + t.choice(n - i - 1);
                let sp = spell(&files[i].rel, &files[j].rel, t);
                let pos = POSITIONS[t.choice(POSITIONS.len())].to_string();
                files[i].imports.push((j, sp, pos));
            }
        }
        // byte-identical twins in two directories, each importing its own ./leaf.ucg
        if t.chance(1, 5) {
            let base = files.len();
            for (k, d) in ["tw1", "tw2"].iter().enumerate() {
                files.push(PF { rel: format!("{}/leaf.ucg", d), v: 1000 * (k as i64 + 1), imports: vec![], trace: None });
            }
            for (k, d) in ["tw1", "tw2"].iter().enumerate() {
                files.push(PF { rel: format!("{}/twin.ucg", d), v: 0, imports: vec![(base + k, "./leaf.ucg".to_string(), "top-level-let".to_string())], trace: Some("twin".to_string()) });
            }
            for k in 0..2 {
                let sp = spell(&files[0].rel.clone(), &files[base + 2 + k].rel.clone(), t);
                files[0].imports.push((base + 2 + k, sp, "top-level-let".to_string()));
            }
        }
        // make every file reachable from the entry so that expectations are interesting
        let cyclic = t.chance(1, 4);
        if cyclic {
            // a back edge from a file reachable from the entry
            let reach = reachable(&files, 0);
            let from = reach[t.choice(reach.len())];
            // the target must lead back to `from` (or be `from` itself) for the edge to close a cycle
            let cands: Vec<usize> = reach.iter().copied().filter(|r| reachable(&files, *r).contains(&from)).collect();
            let to = cands[t.choice(cands.len())];
            let sp = spell(&files[from].rel, &files[to].rel, t);
            let pos = POSITIONS[t.choice(POSITIONS.len() - 1)].to_string();
            files[from].imports.push((to, sp, pos));
        }
        (files, cyclic)
    }

    fn check_project(&mut self, files: &[PF], cyclic: bool) -> Outcome {
        let rendered = files.iter().enumerate().map(|(i, f)| format!("--- {} ---\n{}", f.rel, render_file(f, i))).collect::<Vec<_>>().join("");
        let mut o = Outcome::pass(rendered.clone());
        o.key = fnv(rendered.as_bytes());
        o.portable = Some(serde_json::json!({"files": files, "cyclic": cyclic}).to_string());
        o.class(if cyclic { "cyclic" } else { "dag" });
        let reach = reachable(files, 0);
        for r in &reach {
            for (_, _, pos) in &files[*r].imports {
                o.class(&format!("position:{}", pos));
            }
        }
        let below_top = reach.iter().any(|r| files[*r].imports.iter().any(|(_, _, p)| p != "top-level-let"));
        let two_spellings = {
            let mut seen: Vec<(usize, &String)> = vec![];
            let mut two = false;
            for r in &reach {
                for (j, sp, _) in &files[*r].imports {
                    let full = format!("{}|{}", dir_of(&files[*r].rel).join("/"), sp);
                    let _ = full;
                    if seen.iter().any(|(k, s)| k == j && *s != sp) {
                        two = true;
                    }
                    seen.push((*j, sp));
                }
            }
            two
        };
        o.nontrivial = below_top || two_spellings || cyclic;
        if two_spellings {
            o.class("two-spellings-of-one-file");
        }
        if files.iter().any(|f| f.trace.is_some()) {
            o.class("byte-identical-twins");
        }
        if reach.iter().any(|r| files[*r].imports.iter().any(|(_, sp, _)| sp.starts_with("@ROOT@"))) {
            o.class("absolute-spelling");
        }
        // expected total of the entry (DAG only)
        fn total(files: &[PF], i: usize) -> i64 {
            files[i].v + files[i].imports.iter().map(|(j, _, _)| total(files, *j)).sum::<i64>()
        }
        let want_total = if cyclic { None } else { Some(total(files, 0)) };
        let project = crate::ucgrun::new_scratch_dir("c09");
        let root = project.join("proj");
        let elsewhere = project.join("elsewhere/deep");
        std::fs::create_dir_all(&elsewhere).expect("mkdir");
        for (i, f) in files.iter().enumerate() {
            let p = root.join(&f.rel);
            std::fs::create_dir_all(p.parent().unwrap()).expect("mkdir");
            std::fs::write(&p, render_file(f, i).replace("@ROOT@", &root.to_string_lossy())).expect("write");
        }
        for (rel, src) in helper_files(files) {
            std::fs::write(root.join(&rel), src).expect("write helper");
        }
        let entry_abs = root.join(&files[0].rel);
        let entry_dir = entry_abs.parent().unwrap().to_path_buf();
        // a decoy next to the entry file with the name the twins import from their own directories
        // and a different shape: nothing imports it, so it must not matter
        if files.iter().any(|f| f.rel == "tw1/leaf.ucg") && !entry_dir.join("leaf.ucg").exists() {
            std::fs::write(entry_dir.join("leaf.ucg"), "let v = \"decoy\";\nlet total = \"not a number\";\n").expect("write decoy");
            o.class("same-named-decoy-next-to-the-entry-file");
        }
        let entry_file = entry_abs.file_name().unwrap().to_string_lossy().into_owned();
        let below = entry_dir.join("cwd_below");
        std::fs::create_dir_all(&below).expect("mkdir");
        let runs: Vec<(PathBuf, String, &str)> = vec![
            (below.clone(), format!("../{}", entry_file), "cwd = a directory below the entry file, argument spelled with ../"),
            (entry_dir.clone(), entry_file.clone(), "cwd = the entry file's directory, relative argument"),
            (root.clone(), files[0].rel.clone(), "cwd = project root, relative argument"),
            (elsewhere.clone(), entry_abs.to_string_lossy().into_owned(), "cwd = unrelated directory, absolute argument"),
        ];
        for (cwd, arg, what) in runs {
            // remove artifacts of the previous run
            for f in cli::list_files(&root) {
                if f.extension().and_then(|e| e.to_str()) == Some("json") {
                    let _ = std::fs::remove_file(root.join(&f));
                }
            }
            let r = cli::run_ucg(&cli::Cmd { args: vec!["build".into(), arg.clone()], cwd: &cwd, env: vec![], home: &self.home, timeout: std::time::Duration::from_secs(60), stdin: None });
            if r.timed_out {
                // reproduction protocol
                let r2 = cli::run_ucg(&cli::Cmd { args: vec!["build".into(), arg.clone()], cwd: &cwd, env: vec![], home: &self.home, timeout: std::time::Duration::from_secs(60), stdin: None });
                let r3 = cli::run_ucg(&cli::Cmd { args: vec!["build".into(), arg.clone()], cwd: &cwd, env: vec![], home: &self.home, timeout: std::time::Duration::from_secs(60), stdin: None });
                if r2.timed_out && r3.timed_out {
                    o.fail("C09/hang", format!("`ucg build {}` [{}] did not finish within 60 s three times\n{}", arg, what, rendered));
                    break;
                }
                let _ = std::fs::remove_dir_all(&project);
                return Outcome::discard("cli timeout (not reproduced)", rendered);
            }
            let stderr_short: String = r.stderr.lines().filter(|l| !l.starts_with("TRACE")).take(12).collect::<Vec<_>>().join("\n");
            let ctx = |why: String| format!("{} [{}]\ninvocation: ucg build {}\n{}\nexit: {}\nstderr (without TRACE lines):\n{}", why, what, arg, rendered, r.describe(), stderr_short);
            if !matches!(r.code, Some(0) | Some(1)) {
                o.fail(if cyclic { "C09/cycle-crash" } else { "C09/crash" }, ctx(format!("the binary ended with {} instead of exit 0/1", r.describe())));
                break;
            }
            if cyclic {
                if r.code != Some(1) {
                    o.fail("C09/cycle-accepted", ctx("the import graph has a cycle but the build succeeds".into()));
                    break;
                }
                if !r.stderr.to_lowercase().contains("cycle") {
                    o.fail("C09/cycle-diagnostic", ctx("the build fails but the diagnostic does not mention an import cycle".into()));
                    break;
                }
                continue;
            }
            if r.code != Some(0) {
                o.fail("C09/valid-project-fails", ctx("every import names an existing file relative to the importing file, but the build fails".into()));
                break;
            }
            let art = std::fs::read(entry_abs.with_extension("json")).ok();
            let got: Option<serde_json::Value> = art.as_ref().and_then(|b| serde_json::from_slice(b).ok());
            let want = serde_json::json!({"total": want_total.unwrap() as f64});
            let same = match (&got, want_total) {
                (Some(g), Some(w)) => g.get("total").and_then(|t| t.as_f64()) == Some(w as f64),
                _ => false,
            };
            if !same {
                o.fail("C09/wrong-value", ctx(format!("expected artifact {} but got {:?}", want, got.map(|g| g.to_string()))));
                break;
            }
            // evaluated once: one TRACE line per reachable file (byte-identical twins share an id)
            for i in &reach {
                let id = trace_id(&files[*i], *i);
                let expect = reach.iter().filter(|r| trace_id(&files[**r], **r) == id).count();
                let n = r.stderr.lines().filter(|l| l.starts_with("TRACE") && (l.contains(&format!("{}\"", id)) || l.contains(&format!("{} ", id)) || l.ends_with(&id))).count();
                if n != expect {
                    o.fail("C09/evaluated-more-than-once", ctx(format!("{} should be evaluated exactly once per build but its TRACE line appears {} time(s), expected {}", files[*i].rel, n, expect)));
                    break;
                }
            }
            if o.is_fail() {
                break;
            }
        }
        let _ = std::fs::remove_dir_all(&project);
        o
    }
}

fn reachable(files: &[PF], from: usize) -> Vec<usize> {
    let mut seen = vec![from];
    let mut stack = vec![from];
    while let Some(i) = stack.pop() {
        for (j, _, _) in &files[i].imports {
            if !seen.contains(j) {
                seen.push(*j);
                stack.push(*j);
            }
        }
    }
    seen.sort();
    seen
}

impl Property for C09 {
    fn id(&self) -> &'static str {
        "C09"
    }
    fn rule(&self) -> String {
        "generated project trees of 2..8 files in nested directories whose import graphs are random DAGs (3 in 4) or graphs with a cycle reachable from the entry; import expressions at 13 syntactic positions (top-level let, function body, nested function, map / filter / reduce callback, module body, module out-expression, select arm, tuple field, call argument, format argument, next to an include str of the same path); paths spelled plain, with ./, with redundant dir/../ detours; every project built by the real binary from the entry's directory, a directory below it (argument spelled with ../), the project root and an unrelated directory (absolute argument). DAG: the artifact must hold the sum the generator computed, identically from all three directories, and stderr must show exactly one TRACE line per reachable file; cyclic: exit 1 with a diagnostic naming a cycle, never a crash or hang. Non-trivial: an import below top level, two spellings of one file, or a cycle; distinct by project.".into()
    }
    fn assumptions(&self) -> Vec<String> {
        vec![
            "'evaluated once' is observed through TRACE lines on stderr as the property's observe_at suggests".into(),
            "a run that exceeds 60 s is re-run twice alone before it is called a hang; otherwise the case is discarded".into(),
        ]
    }
    fn budget(&self, tier: Tier) -> Budget {
        Budget {
            cases: match tier {
                Tier::Quick => 640,
                Tier::Thorough => 12_000,
            },
            tape_min: 6,
            tape_max: 160,
        }
    }
    fn run_tape(&mut self, words: &[u32]) -> Outcome {
        let mut t = Tape::new(words);
        let (files, cyclic) = self.gen_project(&mut t);
        self.check_project(&files, cyclic)
    }
    fn run_text(&mut self, text: &str) -> Outcome {
        let j: serde_json::Value = serde_json::from_str(text).expect("replay text is JSON");
        let files: Vec<PF> = serde_json::from_value(j.get("files").cloned().expect("files")).expect("files encoding");
        let cyclic = j.get("cyclic").and_then(|c| c.as_bool()).unwrap_or(false);
        self.check_project(&files, cyclic)
    }
    fn vacuity_floor(&self) -> Vec<(&'static str, f64)> {
        vec![("cyclic", 8.0), ("dag", 40.0)]
    }
}

#[allow(dead_code)]
fn unused(_: &Path) {}
