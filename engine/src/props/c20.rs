//! C20 — the language server survives any session and answers from the current text only.
//!
//! Stateful property test: generated sessions (open / change / close and the five request kinds
//! over up to three documents) are played against the real `ucg lsp` over stdio.  Oracles:
//! liveness (every request answered, no error responses), a validity predicate (every reported
//! range lies inside the text it refers to), a differential against a fresh server opened on the
//! current texts (diagnostics at every publication, answers at every request), agreement with the
//! compiler's parser (in-process), and "a text that builds gets no diagnostics" (in-process build).

use crate::cli;
use crate::core::*;
use crate::lsp::{LspErr, Server};
use crate::prog::Renderer;
use crate::proggen::{Gen, GenCfg};
use crate::props::c04::{self, C04};
use crate::tape::{fnv, Tape};
use crate::ucgrun::{new_scratch_dir, Ucg};
use serde_json::{json, Value};
use std::collections::BTreeMap;
use std::path::{Path, PathBuf};

const DOCS: [&str; 15] = [
    "doc0.ucg", "doc1.ucg", "disk.ucg",
    // six diamonds of files on disk (top imports base and mid, mid imports base): mid_k, top_k
    "alpha_mid.ucg", "alpha_top.ucg", "m1.ucg", "t1.ucg", "mid2.ucg", "top2.ucg", "zz_mid.ucg", "a_top.ucg", "dmid.ucg", "xtop.ucg", "q_mid.ucg", "q_top.ucg",
];
const DIAMOND_BASES: [&str; 6] = ["alpha_base.ucg", "b1.ucg", "zbase2.ucg", "zz_base.ucg", "dbase.ucg", "q_base.ucg"];
const DISK_DOC: usize = 2;

fn diamond_sources(k: usize) -> (String, String, String) {
    let base = DIAMOND_BASES[k];
    let mid = DOCS[3 + 2 * k];
    (
        "let v = 1;\n".to_string(),
        format!("let base = import \"{}\";\nlet v = base.v;\n", base),
        // the type error shows only through mid.v, i.e. only when mid's import of base is resolved
        format!("let base = import \"{}\";\nlet mid = import \"{}\";\nlet bad = mid.v + \"s\";\n", base, mid),
    )
}

#[derive(Clone, Debug, serde::Serialize, serde::Deserialize)]
enum Op {
    Open { doc: usize, text: String },
    Change { doc: usize, text: String },
    Close { doc: usize },
    Hover { doc: usize, line: u32, ch: u32 },
    Definition { doc: usize, line: u32, ch: u32 },
    Completion { doc: usize, line: u32, ch: u32 },
    Tokens { doc: usize },
    Symbols { query: String },
}

#[derive(Clone, Debug, serde::Serialize, serde::Deserialize)]
struct Session {
    disk_variant: usize,
    ops: Vec<Op>,
}

const LIB: &str = "// a library\nlet value = 41;\nlet name = \"lib\";\nlet add = func (a, b) => a + b;\nlet conf = {\n  host = \"h\",\n  port = 80,\n};\n";
const OTHER: &str = "let deep = {a = {b = [1, 2, 3]}};\nlet twice = func (x) => x * 2;\n";
const DISK_VARIANTS: [&str; 3] = [
    "let on_disk = 1;\nlet shared = {x = 1, y = \"s\"};\n",
    "let lib = import \"lib.ucg\";\nlet on_disk = lib.value + 1;\nlet shared = {x = on_disk, y = lib.name};\n",
    "let on_disk = ;\n",
];

pub struct C20 {
    ucg: Ucg,
    gen04: C04,
    home: PathBuf,
    tier: Tier,
}

struct Lines {
    /// UTF-16 length of every line, terminators excluded
    len16: Vec<usize>,
    non_ascii: Vec<bool>,
}

fn lines_of(text: &str) -> Lines {
    let mut len16 = vec![];
    let mut non_ascii = vec![];
    for l in text.split('\n') {
        let l = l.strip_suffix('\r').unwrap_or(l);
        len16.push(l.encode_utf16().count());
        non_ascii.push(!l.is_ascii());
    }
    Lines { len16, non_ascii }
}

/// `None` when the range lies inside the text, otherwise why not.
fn range_problem(text: &str, r: &Value) -> Option<String> {
    let g = |p: &Value, k: &str| p.get(k).and_then(|v| v.as_u64());
    let (sl, sc, el, ec) = match (g(&r["start"], "line"), g(&r["start"], "character"), g(&r["end"], "line"), g(&r["end"], "character")) {
        (Some(a), Some(b), Some(c), Some(d)) => (a as usize, b as usize, c as usize, d as usize),
        _ => return Some("malformed-range".into()),
    };
    let ls = lines_of(text);
    let tag = |line: usize| if ls.non_ascii.get(line).copied().unwrap_or(false) { ":non-ascii-line" } else { "" };
    if (sl, sc) > (el, ec) {
        return Some("start-after-end".into());
    }
    if sl >= ls.len16.len() || el >= ls.len16.len() {
        return Some("line-beyond-last-line".into());
    }
    if sc > ls.len16[sl] {
        return Some(format!("start-character-beyond-line{}", tag(sl)));
    }
    // ucg marks a position with a one-character range; at a line end it sticks out by one
    let marker = sl == el && ec == sc + 1;
    if ec > ls.len16[el] && !marker {
        return Some(format!("end-character-beyond-line{}", tag(el)));
    }
    None
}

/// the protocol's (UTF-16) column of the 0-based byte column `col` on the 0-based `line`
fn utf16_column(text: &str, line: usize, col: usize) -> usize {
    match text.split('\n').nth(line) {
        Some(l) if col >= l.len() => l.encode_utf16().count() + (col - l.len()),
        Some(l) => l.char_indices().take_while(|(i, _)| *i < col).map(|(_, c)| c.len_utf16()).sum(),
        None => col,
    }
}

fn uri_of(ws: &Path, doc: usize) -> String {
    format!("file://{}/{}", ws.display(), DOCS[doc])
}

struct Play<'a> {
    ws: &'a Path,
    home: &'a Path,
    disk: BTreeMap<String, String>,
    open: BTreeMap<usize, String>,
    /// open documents, least recently updated first
    order: Vec<usize>,
    seq: u64,
    updated: BTreeMap<usize, u64>,
    disk_doc_event: u64,
    shadow: Option<Server>,
    shadows_started: u32,
}

impl<'a> Play<'a> {
    fn text_for_uri(&self, uri: &str) -> Option<String> {
        for (i, _) in DOCS.iter().enumerate() {
            if uri == uri_of(self.ws, i) {
                if let Some(t) = self.open.get(&i) {
                    return Some(t.clone());
                }
            }
        }
        let prefix = format!("file://{}/", self.ws.display());
        let rel = uri.strip_prefix(&prefix)?;
        self.disk.get(rel).cloned()
    }

    /// does `doc`'s stored analysis possibly rest on an older text of the disk document?
    fn stale(&self, doc: usize) -> bool {
        doc != DISK_DOC && self.open.get(&doc).map(|t| t.contains("disk.ucg")).unwrap_or(false) && self.disk_doc_event > *self.updated.get(&doc).unwrap_or(&0)
    }

    fn shadow(&mut self) -> Result<&mut Server, LspErr> {
        if self.shadow.is_none() {
            let mut s = Server::start(&cli::ucg_bin(), self.ws, self.home)?;
            for d in &self.order {
                s.notify("textDocument/didOpen", json!({"textDocument": {"uri": uri_of(self.ws, *d), "languageId": "ucg", "version": 1, "text": self.open[d]}}))?;
            }
            s.barrier()?;
            self.shadows_started += 1;
            self.shadow = Some(s);
        }
        Ok(self.shadow.as_mut().unwrap())
    }

    fn drop_shadow(&mut self) {
        if let Some(s) = self.shadow.take() {
            s.kill();
        }
    }
}

/// order-insensitive form of answers whose order comes from hash maps
fn normalise(method: &str, v: &Value) -> Value {
    let mut v = v.clone();
    let sort = |a: &mut Vec<Value>| a.sort_by_key(|x| x.to_string());
    match method {
        "textDocument/completion" => {
            if let Some(a) = v.get_mut("items").and_then(|i| i.as_array_mut()) {
                sort(a);
            }
        }
        "workspace/symbol" => {
            if let Some(a) = v.as_array_mut() {
                sort(a);
            }
        }
        _ => {}
    }
    v
}

fn panic_site(stderr: &str) -> String {
    match stderr.find("panicked at ") {
        Some(i) => {
            let rest = &stderr[i + 12..];
            let loc: String = rest.chars().take_while(|c| !c.is_whitespace() && *c != ',').collect();
            // file:line without the column
            let mut parts = loc.trim_end_matches(':').rsplitn(2, ':');
            let _col = parts.next();
            parts.next().unwrap_or(&loc).to_string()
        }
        None => "no-panic-message".into(),
    }
}

impl C20 {
    pub fn new(tier: Tier) -> Self {
        C20 { ucg: Ucg::new(), gen04: C04::new(tier), home: new_scratch_dir("c20home"), tier }
    }

    fn gen_text(&self, t: &mut Tape) -> (&'static str, String) {
        let (label, mut text): (&'static str, String) = match t.weighted(&[5, 4, 4, 1, 1, 1, 2, 1]) {
            0 => {
                let mut cfg = GenCfg::quick();
                cfg.max_depth = 3;
                cfg.max_stmts = 5;
                cfg.wrong_permille = 60;
                cfg.literal_variety = true;
                let prog = {
                    let mut g = Gen::new(t, cfg);
                    g.program()
                };
                ("generated-program", Renderer::program(&prog))
            }
            1 | 2 => {
                // hand-written lines: imports of files on disk, non-ASCII text, comments, multi-line values
                let pool: [&str; 25] = [
                    "let lib = import \"lib.ucg\";\n",
                    "let other = import \"sub/other.ucg\";\n",
                    "let dd = import \"disk.ucg\";\n",
                    "let lists = import \"std/lists.ucg\";\n",
                    "let n = lib.value + 1;\n",
                    "let h = lib.conf.host;\n",
                    "let s = lib.add(1, 2);\n",
                    "let dv = dd.on_disk;\n",
                    "let tw = other.twice(4);\n",
                    "let ln = lists.len([1, 2]);\n",
                    "// commentaire é 日本 𝒳\n",
                    "let uni = \"é日本𝒳\"; let after = 1;\n",
                    "let tup = {\"é\" = 1, plain = \"ü\", last = [1, 2]};\n",
                    "let f = func (arg, brg) => arg + brg;\n",
                    "let m = module {\n  host = \"h\",\n} => (out) {\n  let out = mod.host + \"!\";\n};\n",
                    "let inst = m{host = \"x\"};\n",
                    "let sel = select (\"a\", 0) => {\n  a = 1,\n  b = 2,\n};\n",
                    "let bad = 1 + \"s\";\n",
                    "let worse = \"éé\" + 1;\n",
                    "let unk = nosuch + 1;\n",
                    "constraint port = in 1..65535;\nlet p :: port = 80;\n",
                    "out json {a = 1};\n",
                    "let esc = \"a\\\\b é\\\"日本\\\" 𝒳 end\"; let tail = esc;\n",
                    "let imp = import \"std/l\";\n",
                    "let q = {\"quoted é\" = 1, \"\\\\ü\" = 2}; let r = q.\"quoted é\";\n",
                ];
                let mut s = String::new();
                for _ in 0..1 + t.choice(7) {
                    s.push_str(pool[t.choice(pool.len())]);
                }
                if t.chance(1, 3) {
                    // token mutation: drop, duplicate or garble one token
                    if let Ok(toks) = crate::reflex::lex(&s) {
                        if !toks.is_empty() {
                            let i = t.choice(toks.len());
                            let mut out = String::new();
                            for (k, tok) in toks.iter().enumerate() {
                                if k == i {
                                    match t.choice(4) {
                                        0 => continue,
                                        1 => {
                                            out.push_str(&tok.src);
                                            out.push(' ');
                                        }
                                        2 => {
                                            out.push_str("é#");
                                            continue;
                                        }
                                        _ => {
                                            out.push_str(") ");
                                        }
                                    }
                                }
                                out.push_str(&tok.src);
                                out.push(if tok.src == ";" { '\n' } else { ' ' });
                            }
                            return ("mutated-lines", out);
                        }
                    }
                }
                ("hand-written-lines", s)
            }
            3 => ("token-soup", self.gen04.gen_soup(t)),
            4 => ("statement-soup", self.gen04.gen_statementish(t)),
            5 => match self.gen04.gen_mutation(t) {
                Some(s) if s.len() < 6000 => ("corpus-mutation", s),
                _ => ("token-soup", self.gen04.gen_soup(t)),
            },
            6 => {
                let alphabet: [&str; 24] = ["a", "é", "日", "𝒳", " ", "\n", "\r\n", "\t", "\"", "\\", "/", "//", ";", "=", "let", "{", "}", "(", ")", ".", "1", "@", "\u{feff}", "\u{0}"];
                let mut s = String::new();
                for _ in 0..t.choice(40) {
                    s.push_str(alphabet[t.choice(alphabet.len())]);
                }
                ("arbitrary-text", s)
            }
            _ => ("blank", ["", "\n", "   ", "\r\n\r\n", "// only a comment", "// c\n"][t.choice(6)].to_string()),
        };
        if t.chance(1, 5) {
            text = text.replace("\r\n", "\n").replace('\n', "\r\n");
        }
        // a lone carriage return is a line end for the client but not for ucg: out of scope
        let mut clean = String::with_capacity(text.len());
        let mut it = text.chars().peekable();
        while let Some(c) = it.next() {
            if c == '\r' && it.peek() != Some(&'\n') {
                continue;
            }
            clean.push(c);
        }
        (label, clean)
    }

    fn gen_pos(t: &mut Tape, text: &str) -> (u32, u32) {
        let ls = lines_of(text);
        match t.weighted(&[4, 2, 2, 1, 1, 6]) {
            5 => {
                // inside a word: names are what hover / definition / completion answer about
                let words: Vec<usize> = text.char_indices().filter(|(_, c)| c.is_alphanumeric() || *c == '_').map(|(i, _)| i).collect();
                if words.is_empty() {
                    return (0, 0);
                }
                let off = words[t.choice(words.len())];
                let before = &text[..off];
                let line = before.matches('\n').count();
                let col = before.rsplit('\n').next().unwrap().encode_utf16().count();
                (line as u32, col as u32 + t.choice(2) as u32)
            }
            0 => {
                // a character position inside the text (token starts and insides alike)
                let starts: Vec<usize> = text.char_indices().map(|(i, _)| i).collect();
                if starts.is_empty() {
                    return (0, 0);
                }
                let off = starts[t.choice(starts.len())];
                let before = &text[..off];
                let line = before.matches('\n').count();
                let col = before.rsplit('\n').next().unwrap().encode_utf16().count();
                (line as u32, col as u32)
            }
            1 => {
                let l = t.choice(ls.len16.len());
                (l as u32, ls.len16[l] as u32)
            }
            2 => {
                let l = t.choice(ls.len16.len());
                (l as u32, (ls.len16[l] + 1 + t.choice(4)) as u32)
            }
            3 => ((ls.len16.len() + t.choice(3)) as u32, t.choice(3) as u32),
            _ => *t.pick(&[(u32::MAX, u32::MAX), (0, u32::MAX), (u32::MAX, 0), (i32::MAX as u32, i32::MAX as u32), (0, u32::MAX - 1)]),
        }
    }

    fn gen_session(&self, t: &mut Tape) -> Session {
        let disk_variant = t.weighted(&[4, 4, 1]);
        let n = 1 + t.choice(30);
        let ndocs = 1 + t.choice(3);
        let mut open: BTreeMap<usize, String> = BTreeMap::new();
        let mut ops = vec![];
        let diamond_at = if t.chance(1, 5) { Some(t.choice(n)) } else { None };
        for step in 0..n {
            if diamond_at == Some(step) {
                // open and close the middle file of a diamond unchanged, then open its top
                let k = t.choice(DIAMOND_BASES.len());
                let (_, m, top) = diamond_sources(k);
                let (mid_doc, top_doc) = (3 + 2 * k, 4 + 2 * k);
                if t.chance(2, 3) {
                    ops.push(Op::Open { doc: mid_doc, text: m });
                    ops.push(Op::Close { doc: mid_doc });
                }
                ops.push(Op::Open { doc: top_doc, text: top });
                ops.push(Op::Hover { doc: top_doc, line: 2, ch: 4 });
                ops.push(Op::Close { doc: top_doc });
            }
            let doc = if ndocs == 3 && t.chance(1, 3) { DISK_DOC } else { t.choice(ndocs.min(2)) };
            let kind = if open.is_empty() { 0 } else { t.weighted(&[3, 5, 1, 4, 3, 3, 2, 2]) };
            match kind {
                0 | 1 => {
                    let (_, mut text) = self.gen_text(t);
                    if let (Some(prev), true) = (open.get(&doc), t.chance(1, 4)) {
                        // the same text moved: every binding keeps its name and type but not its place
                        text = match t.choice(5) {
                            0 => format!("\n\n{}", prev),
                            1 => format!("// moved down\n// by two lines\n{}", prev),
                            2 => format!("   {}", prev),
                            3 => prev.trim_start().to_string(),
                            _ => prev.replacen(";\n", ";\n\n\n", 1),
                        };
                    }
                    if doc == DISK_DOC {
                        // a file importing itself is an import cycle: out of scope
                        text = text.replace("disk.ucg", "lib.ucg");
                    }
                    if open.contains_key(&doc) {
                        ops.push(Op::Change { doc, text: text.clone() });
                    } else {
                        ops.push(Op::Open { doc, text: text.clone() });
                    }
                    open.insert(doc, text);
                }
                2 => {
                    if open.remove(&doc).is_some() {
                        ops.push(Op::Close { doc });
                    } else {
                        let (_, mut text) = self.gen_text(t);
                        if doc == DISK_DOC {
                            text = text.replace("disk.ucg", "lib.ucg");
                        }
                        ops.push(Op::Open { doc, text: text.clone() });
                        open.insert(doc, text);
                    }
                }
                3 | 4 | 5 => {
                    // mostly on an open document
                    let d = if t.chance(9, 10) { *open.keys().nth(t.choice(open.len())).unwrap() } else { doc };
                    let text = open.get(&d).cloned().unwrap_or_default();
                    let (line, ch) = Self::gen_pos(t, &text);
                    ops.push(match kind {
                        3 => Op::Hover { doc: d, line, ch },
                        4 => Op::Definition { doc: d, line, ch },
                        _ => Op::Completion { doc: d, line, ch },
                    });
                }
                6 => {
                    let d = if t.chance(9, 10) { *open.keys().nth(t.choice(open.len())).unwrap() } else { doc };
                    ops.push(Op::Tokens { doc: d });
                }
                _ => ops.push(Op::Symbols { query: t.pick(&["", "a", "on_disk", "value", "é", "lib", "zzz", "o"]).to_string() }),
            }
        }
        Session { disk_variant, ops }
    }

    fn render(s: &Session) -> String {
        let mut out = format!("[disk.ucg on disk: variant {}]\n", s.disk_variant);
        for (i, op) in s.ops.iter().enumerate() {
            out.push_str(&format!("{:2}. ", i + 1));
            match op {
                Op::Open { doc, text } => out.push_str(&format!("didOpen {} {:?}\n", DOCS[*doc], text)),
                Op::Change { doc, text } => out.push_str(&format!("didChange {} {:?}\n", DOCS[*doc], text)),
                Op::Close { doc } => out.push_str(&format!("didClose {}\n", DOCS[*doc])),
                Op::Hover { doc, line, ch } => out.push_str(&format!("hover {} {}:{}\n", DOCS[*doc], line, ch)),
                Op::Definition { doc, line, ch } => out.push_str(&format!("definition {} {}:{}\n", DOCS[*doc], line, ch)),
                Op::Completion { doc, line, ch } => out.push_str(&format!("completion {} {}:{}\n", DOCS[*doc], line, ch)),
                Op::Tokens { doc } => out.push_str(&format!("semanticTokens {}\n", DOCS[*doc])),
                Op::Symbols { query } => out.push_str(&format!("workspace/symbol {:?}\n", query)),
            }
        }
        out
    }

    /// the compiler's parser on the same text: Ok(()) or (message, line, column)
    fn compiler_parse(&mut self, text: &str) -> Option<Result<(), (String, Option<(usize, usize)>)>> {
        c04::set_limit(3_000_000);
        let r = catch(std::panic::AssertUnwindSafe(|| ucglib::parse::parse(ucglib::iter::OffsetStrIter::new(text), None)));
        c04::set_limit(u64::MAX);
        match r {
            Ok(Ok(_)) => Some(Ok(())),
            Ok(Err(e)) => Some(Err((e.msg.clone(), e.pos.as_ref().map(|p| (p.line, p.column))))),
            Err(_) => None,
        }
    }

    /// does the compiler build this text (as a file next to the same files on disk)?
    fn compiler_builds(&mut self, disk: &BTreeMap<String, String>, name: &str, text: &str) -> Option<Result<(), String>> {
        self.ucg.reset();
        let p = self.ucg.fresh_path("x", "ucg");
        let dir = p.parent().unwrap().to_path_buf();
        for (rel, content) in disk {
            let f = dir.join(rel);
            let _ = std::fs::create_dir_all(f.parent().unwrap());
            let _ = std::fs::write(&f, content);
        }
        let file = dir.join(name);
        let _ = std::fs::write(&file, text);
        c04::set_limit(3_000_000);
        let r = {
            let u = &self.ucg;
            catch(std::panic::AssertUnwindSafe(|| u.build(&file, true)))
        };
        c04::set_limit(u64::MAX);
        let out = match r {
            Ok(Ok(_)) => Some(Ok(())),
            Ok(Err(e)) => Some(Err(e)),
            Err(_) => {
                self.ucg.poison();
                None
            }
        };
        self.ucg.cleanup_case_dir(&p);
        out
    }

    fn lsp_fail(o: &mut Outcome, e: LspErr, what: &str, which: &str, rendered: &str) {
        match e {
            LspErr::Timeout => o.verdict = Verdict::Discard(format!("watchdog: the {} server did not answer {} within {} s", which, what, crate::lsp::ANSWER_TIMEOUT.as_secs())),
            LspErr::Died(msg) => {
                let site = panic_site(&msg);
                o.fail(&format!("C20/server-died:{}", site), format!("the {} server stopped while handling {}: {}\n{}", which, what, msg.chars().take(600).collect::<String>(), rendered));
            }
        }
    }

    fn check_ranges(play: &Play, o: &mut Outcome, source: &str, default_uri: &str, v: &Value, rendered: &str) -> bool {
        // every {range} (with the uri next to it, or the document asked about)
        fn walk(play: &Play, default_uri: &str, v: &Value, found: &mut Vec<(String, Value)>) {
            match v {
                Value::Object(m) => {
                    let uri = m.get("uri").and_then(|u| u.as_str()).unwrap_or(default_uri).to_string();
                    if let Some(r) = m.get("range") {
                        if r.get("start").is_some() {
                            found.push((uri.clone(), r.clone()));
                        }
                    }
                    for (_, x) in m {
                        walk(play, &uri, x, found);
                    }
                }
                Value::Array(a) => {
                    for x in a {
                        walk(play, default_uri, x, found);
                    }
                }
                _ => {}
            }
        }
        let mut found = vec![];
        walk(play, default_uri, v, &mut found);
        for (uri, r) in found {
            o.class("range-checked");
            let text = match play.text_for_uri(&uri) {
                Some(t) => t,
                None => {
                    if uri.starts_with(&format!("file://{}/", play.ws.display())) && DOCS.iter().any(|d| uri.ends_with(d)) {
                        o.fail(&format!("C20/range-in-closed-document:{}", source), format!("{} reports a range in {} which is neither open nor on disk\n{}", source, uri, rendered));
                        return false;
                    }
                    o.class("range-in-foreign-file");
                    continue;
                }
            };
            if let Some(why) = range_problem(&text, &r) {
                o.fail(&format!("C20/range-outside-document:{}:{}", source, why), format!("{} reports the range {} in {} whose text is {:?}\n{}", source, r, uri, text, rendered));
                return false;
            }
        }
        true
    }

    fn run_session(&mut self, s: &Session) -> Outcome {
        let rendered = Self::render(s);
        let mut o = Outcome::pass(rendered.clone());
        o.key = fnv(rendered.as_bytes());
        o.portable = Some(serde_json::to_string(s).unwrap());
        let ws = new_scratch_dir("c20ws");
        let mut disk = BTreeMap::new();
        disk.insert("lib.ucg".to_string(), LIB.to_string());
        disk.insert("sub/other.ucg".to_string(), OTHER.to_string());
        disk.insert("disk.ucg".to_string(), DISK_VARIANTS[s.disk_variant % 3].to_string());
        for k in 0..DIAMOND_BASES.len() {
            let (b, m, t) = diamond_sources(k);
            disk.insert(DIAMOND_BASES[k].to_string(), b);
            disk.insert(DOCS[3 + 2 * k].to_string(), m);
            disk.insert(DOCS[4 + 2 * k].to_string(), t);
        }
        for (rel, c) in &disk {
            let f = ws.join(rel);
            let _ = std::fs::create_dir_all(f.parent().unwrap());
            std::fs::write(&f, c).expect("write workspace file");
        }
        let home = self.home.clone();
        let mut play = Play { ws: &ws, home: &home, disk, open: BTreeMap::new(), order: vec![], seq: 0, updated: BTreeMap::new(), disk_doc_event: 0, shadow: None, shadows_started: 0 };
        let mut main = match Server::start(&cli::ucg_bin(), &ws, &home) {
            Ok(m) => m,
            Err(e) => {
                Self::lsp_fail(&mut o, e, "initialize", "session", &rendered);
                let _ = std::fs::remove_dir_all(&ws);
                return o;
            }
        };
        let mut edits = 0;
        let mut requests = 0;
        self.play(&mut main, &mut play, s, &mut o, &rendered, &mut edits, &mut requests);
        play.drop_shadow();
        main.kill();
        let _ = std::fs::remove_dir_all(&ws);
        o.nontrivial = edits >= 2 && requests >= 1;
        o
    }

    #[allow(clippy::too_many_arguments)]
    fn play(&mut self, main: &mut Server, play: &mut Play, s: &Session, o: &mut Outcome, rendered: &str, edits: &mut u32, requests: &mut u32) {
        for (step, op) in s.ops.iter().enumerate() {
            let at = format!("step {}", step + 1);
            match op {
                Op::Open { doc, text } | Op::Change { doc, text } => {
                    *edits += 1;
                    let uri = uri_of(play.ws, *doc);
                    let before = main.published.len();
                    let sent = if matches!(op, Op::Open { .. }) {
                        main.notify("textDocument/didOpen", json!({"textDocument": {"uri": uri, "languageId": "ucg", "version": 1, "text": text}}))
                    } else {
                        // full-text sync: the last entry of contentChanges is the current text; earlier
                        // entries (1 in 4 edits carries one) are history
                        let changes = if fnv(text.as_bytes()) % 4 == 0 { json!([{"text": "let superseded = ;\n"}, {"text": text}]) } else { json!([{"text": text}]) };
                        main.notify("textDocument/didChange", json!({"textDocument": {"uri": uri, "version": step + 2}, "contentChanges": changes}))
                    };
                    if let Err(e) = sent.and_then(|_| main.barrier()) {
                        return Self::lsp_fail(o, e, &format!("{} (didOpen/didChange)", at), "session", rendered);
                    }
                    play.seq += 1;
                    play.open.insert(*doc, text.clone());
                    play.order.retain(|d| d != doc);
                    play.order.push(*doc);
                    play.updated.insert(*doc, play.seq);
                    if *doc == DISK_DOC {
                        play.disk_doc_event = play.seq;
                    }
                    play.drop_shadow();
                    let mine: Vec<&(String, Value)> = main.published[before..].iter().filter(|(u, _)| *u == uri).collect();
                    if mine.is_empty() {
                        o.fail("C20/no-diagnostics-published", format!("{}: nothing was published for {} after the edit\n{}", at, uri, rendered));
                        return;
                    }
                    let got = mine.last().unwrap().1.clone();
                    let ndiag = got.as_array().map(|a| a.len()).unwrap_or(0);
                    o.class(if ndiag == 0 { "edit-without-diagnostics" } else { "edit-with-diagnostics" });
                    if !text.is_ascii() {
                        o.class("non-ascii-text");
                    }
                    if text.contains("\r\n") {
                        o.class("crlf-text");
                    }
                    // ranges
                    if !Self::check_ranges(play, o, "diagnostic", &uri, &got, rendered) {
                        return;
                    }
                    // the compiler's parser
                    match self.compiler_parse(text) {
                        Some(Err((msg, pos))) => {
                            o.class("text-with-syntax-error");
                            let ok = ndiag == 1 && got[0]["message"].as_str() == Some(msg.as_str()) && match pos {
                                Some((l, c)) => got[0]["range"]["start"]["line"].as_u64() == Some((l.max(1) - 1) as u64) && got[0]["range"]["start"]["character"].as_u64() == Some(utf16_column(text, l.max(1) - 1, c.max(1) - 1) as u64),
                                None => true,
                            };
                            if !ok {
                                o.fail("C20/syntax-diagnostic-differs-from-parser", format!("{}: the compiler's parser rejects the text with {:?} at {:?} (1-based) but the server published {}\n{}", at, msg, pos, got, rendered));
                                return;
                            }
                        }
                        Some(Ok(())) => {
                            o.class("text-parses");
                            if ndiag > 0 {
                                // the server sees open documents in place of the files on disk
                                let mut files = play.disk.clone();
                                for (d, t) in &play.open {
                                    files.insert(DOCS[*d].to_string(), t.clone());
                                }
                                match self.compiler_builds(&files, DOCS[*doc], text) {
                                    Some(Ok(())) => {
                                        let m = got[0]["message"].as_str().unwrap_or("");
                                        let short: String = m.chars().map(|c| if c.is_ascii_digit() { '#' } else { c }).take(40).collect();
                                        o.fail(&format!("C20/diagnostic-on-text-that-builds:{}", short.replace(' ', "_")), format!("{}: `ucg build` accepts the text but the server published {}\n{}", at, got, rendered));
                                        return;
                                    }
                                    Some(Err(_)) => o.class("diagnostics-and-build-fails"),
                                    None => o.class("build-undecided"),
                                }
                            }
                        }
                        None => o.class("parser-undecided"),
                    }
                    // a fresh server on the current texts
                    let fresh = match play.shadow() {
                        Ok(sh) => sh.diags.get(&uri).cloned().unwrap_or(Value::Null),
                        Err(e) => return Self::lsp_fail(o, e, &format!("the texts as of {}", at), "fresh", rendered),
                    };
                    if fresh != got {
                        o.fail("C20/diagnostics-differ-from-fresh-server", format!("{}: the session server published {} but a fresh server opened on the same texts publishes {}\n{}", at, got, fresh, rendered));
                        return;
                    }
                }
                Op::Close { doc } => {
                    let uri = uri_of(play.ws, *doc);
                    let before = main.published.len();
                    if let Err(e) = main.notify("textDocument/didClose", json!({"textDocument": {"uri": uri}})).and_then(|_| main.barrier()) {
                        return Self::lsp_fail(o, e, &format!("{} (didClose)", at), "session", rendered);
                    }
                    play.seq += 1;
                    play.open.remove(doc);
                    play.order.retain(|d| d != doc);
                    if *doc == DISK_DOC {
                        play.disk_doc_event = play.seq;
                    }
                    play.drop_shadow();
                    o.class("close");
                    let cleared = main.published[before..].iter().any(|(u, d)| *u == uri && d.as_array().map(|a| a.is_empty()).unwrap_or(false));
                    if !cleared {
                        o.fail("C20/close-does-not-clear-diagnostics", format!("{}: no empty diagnostics list was published for the closed {}\n{}", at, uri, rendered));
                        return;
                    }
                }
                Op::Hover { doc, line, ch } | Op::Definition { doc, line, ch } | Op::Completion { doc, line, ch } => {
                    *requests += 1;
                    let uri = uri_of(play.ws, *doc);
                    let method = match op {
                        Op::Hover { .. } => "textDocument/hover",
                        Op::Definition { .. } => "textDocument/definition",
                        _ => "textDocument/completion",
                    };
                    let params = json!({"textDocument": {"uri": uri}, "position": {"line": line, "character": ch}});
                    if !self.request_and_compare(main, play, o, method, params, &uri, play.stale(*doc), &at, rendered) {
                        return;
                    }
                }
                Op::Tokens { doc } => {
                    *requests += 1;
                    let uri = uri_of(play.ws, *doc);
                    let params = json!({"textDocument": {"uri": uri}});
                    if !self.request_and_compare(main, play, o, "textDocument/semanticTokens/full", params, &uri, play.stale(*doc), &at, rendered) {
                        return;
                    }
                }
                Op::Symbols { query } => {
                    *requests += 1;
                    let any_stale = play.open.keys().any(|d| play.stale(*d));
                    let uri = uri_of(play.ws, 0);
                    if !self.request_and_compare(main, play, o, "workspace/symbol", json!({"query": query}), &uri, any_stale, &at, rendered) {
                        return;
                    }
                }
            }
        }
        let _ = self.tier;
    }

    #[allow(clippy::too_many_arguments)]
    fn request_and_compare(&mut self, main: &mut Server, play: &mut Play, o: &mut Outcome, method: &str, params: Value, uri: &str, stale: bool, at: &str, rendered: &str) -> bool {
        let short = method.rsplit('/').next().unwrap_or(method).to_string();
        let ans = match main.request(method, params.clone()) {
            Ok(a) => a,
            Err(e) => {
                Self::lsp_fail(o, e, &format!("{} ({})", at, method), "session", rendered);
                return false;
            }
        };
        if ans.get("error").is_some() || ans.get("result").is_none() {
            o.fail(&format!("C20/error-response:{}", short), format!("{}: {} was answered with {}\n{}", at, method, ans, rendered));
            return false;
        }
        let result = ans["result"].clone();
        o.class(&format!("{}-{}", short, if result.is_null() || result == json!({"isIncomplete": false, "items": []}) || result == json!({"data": []}) || result == json!([]) { "empty" } else { "answered" }));
        // ranges
        if method == "textDocument/semanticTokens/full" {
            if let Some(text) = play.text_for_uri(uri) {
                let data: Vec<u64> = result["data"].as_array().map(|a| a.iter().filter_map(|x| x.as_u64()).collect()).unwrap_or_default();
                let (mut line, mut start) = (0u64, 0u64);
                for c in data.chunks(5) {
                    if c.len() < 5 {
                        o.fail("C20/range-outside-document:semantic-tokens:malformed", format!("{}: the token data is not a multiple of five\n{}", at, rendered));
                        return false;
                    }
                    if c[0] > 0 {
                        line += c[0];
                        start = c[1];
                    } else {
                        start += c[1];
                    }
                    let r = json!({"start": {"line": line, "character": start}, "end": {"line": line, "character": start + c[2]}});
                    if c[2] == 0 {
                        continue;
                    }
                    if let Some(why) = range_problem(&text, &r) {
                        o.fail(&format!("C20/range-outside-document:semantic-token:{}", why), format!("{}: semantic token {} lies outside the text {:?}\n{}", at, r, text, rendered));
                        return false;
                    }
                }
                o.class("range-checked");
            }
        } else if !Self::check_ranges(play, o, &short, uri, &result, rendered) {
            return false;
        }
        // the same request on a fresh server opened on the current texts
        if stale {
            o.class("fresh-comparison-skipped");
            return true;
        }
        let fresh = match play.shadow().and_then(|sh| sh.request(method, params)) {
            Ok(a) => a["result"].clone(),
            Err(e) => {
                Self::lsp_fail(o, e, &format!("{} ({})", at, method), "fresh", rendered);
                return false;
            }
        };
        if normalise(method, &fresh) != normalise(method, &result) {
            o.fail(&format!("C20/answer-differs-from-fresh-server:{}", short), format!("{}: {} answered {} but a fresh server opened on the current texts answers {}\n{}", at, method, clipv(&result), clipv(&fresh), rendered));
            return false;
        }
        true
    }
}

fn clipv(v: &Value) -> String {
    let s = v.to_string();
    if s.len() > 600 {
        format!("{}…", s.chars().take(600).collect::<String>())
    } else {
        s
    }
}

impl Property for C20 {
    fn id(&self) -> &'static str {
        "C20"
    }
    fn rule(&self) -> String {
        "sessions of 1..30 messages over 1..3 documents (two unsaved buffers and one file that also exists on disk, next to two library files) played against the real `ucg lsp` over stdio: didOpen / didChange / didClose and hover, definition, completion, semantic tokens, workspace symbols; texts are generated programs, hand-written lines with imports of disk files and std, non-ASCII strings/comments and multi-line values, token mutations of those, token and statement soups, mutated repository files, arbitrary UTF-8 (astral characters, BOM, NUL, CRLF) and blank texts; positions at any character, at line ends, beyond the line, beyond the last line and at u32/i32 extremes. After every message the server must be alive and have answered without an error response; every range (diagnostics, hover, definition, completion edits, symbols, decoded semantic tokens) must lie inside the text of the document it names (UTF-16 columns; a one-character marker may stick out of its line by one); after every edit the diagnostics must equal those of a fresh server opened on the current texts, match the compiler's parser (same message and position, exactly one diagnostic) when it rejects the text, and be empty when the compiler builds the text; after every request the answer must equal the fresh server's (order-insensitive for completion items and symbols); didClose must clear the diagnostics. Non-trivial: at least two edits and one request; distinct by session.".into()
    }
    fn assumptions(&self) -> Vec<String> {
        vec![
            "a document never imports itself (an import cycle; the server would resolve it against its own previous text)".into(),
            "a lone carriage return is never generated (the client would count it as a line end, ucg does not)".into(),
            "answers about a document that imports disk.ucg are not compared with the fresh server while disk.ucg has been edited since that document's last analysis (the server re-analyses a document only when it changes)".into(),
            format!("no answer within {} s is reported as inconclusive (exit 2), not as a violation", crate::lsp::ANSWER_TIMEOUT.as_secs()),
        ]
    }
    fn budget(&self, tier: Tier) -> Budget {
        Budget {
            cases: match tier {
                Tier::Quick => 2_000,
                Tier::Thorough => 60_000,
            },
            tape_min: 10,
            tape_max: 700,
        }
    }
    fn run_tape(&mut self, words: &[u32]) -> Outcome {
        let mut t = Tape::new(words);
        let s = self.gen_session(&mut t);
        self.run_session(&s)
    }
    fn run_text(&mut self, text: &str) -> Outcome {
        let s: Session = serde_json::from_str(text).expect("replay text is a session");
        self.run_session(&s)
    }
    fn shrink_iters(&self) -> u32 {
        400
    }
}
