pub mod c02;
