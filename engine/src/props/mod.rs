pub mod c02;
pub mod c03;
pub mod c04;
pub mod c08;
pub mod c11;
pub mod c12;
pub mod c14;
pub mod c15;
