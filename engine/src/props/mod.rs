pub mod c02;
pub mod c03;
pub mod c11;
