//! C11 — tokens carry exact text and location; layout does not matter.
//!
//! Oracle: the reference lexer (reflex.rs).  Positions are recomputed from the
//! source text; layouts of one token sequence must give the same tokens and the
//! same parsed program; string values are the source text with the documented
//! escapes decoded.

use crate::core::*;
use crate::norm;
use crate::reflex::{self, Kind, Tok};
use crate::tape::{fnv, Tape};
use crate::ucgrun::Ucg;
use ucglib::ast::{Token, TokenType};
use ucglib::build::Val;
use ucglib::iter::OffsetStrIter;

pub struct C11 {
    vocab: Vec<String>,
    small: Vec<String>,
    corpus: Vec<Vec<String>>, // statements of shipped files as token source slices
    ucg: Ucg,
}

const SEPS: [&str; 7] = ["", " ", "\n", "\r\n", "\t", "//c\n", " //c\r\n"];
const SEPS_SMALL: [&str; 2] = ["", " "];

fn vocab() -> Vec<String> {
    let mut v: Vec<String> = vec![];
    v.extend(reflex::PUNCT2.iter().map(|s| s.to_string()));
    v.extend(reflex::PUNCT1.iter().map(|s| s.to_string()));
    v.extend(reflex::KEYWORDS.iter().map(|s| s.to_string()));
    for w in ["true", "false", "NULL", "a", "a-b", "a_1", "x9", "0", "12", "\"\"", "\"s\"", "\"a\\\"b\"", "\"é\""] {
        v.push(w.to_string());
    }
    v
}

fn small_vocab() -> Vec<String> {
    let mut v: Vec<String> = vec![];
    v.extend(reflex::PUNCT2.iter().map(|s| s.to_string()));
    v.extend(reflex::PUNCT1.iter().map(|s| s.to_string()));
    for w in ["a", "in", "1", "true", "\"s\""] {
        v.push(w.to_string());
    }
    v
}

fn kind_of(t: &TokenType) -> Option<Kind> {
    Some(match t {
        TokenType::PUNCT => Kind::Punct,
        TokenType::BAREWORD => Kind::Bareword,
        TokenType::DIGIT => Kind::Digit,
        TokenType::QUOTED => Kind::Quoted,
        TokenType::BOOLEAN => Kind::Boolean,
        TokenType::EMPTY => Kind::Empty,
        TokenType::COMMENT => Kind::Comment,
        _ => return None,
    })
}

fn show_tok(t: &Token) -> String {
    format!(
        "{:?}({:?})@{}:{}+{}",
        t.typ, t.fragment, t.pos.line, t.pos.column, t.pos.offset
    )
}

fn show_ref(t: &Tok) -> String {
    format!(
        "{:?}({:?})@{}:{}+{}",
        t.kind, t.text, t.line, t.col_bytes, t.offset
    )
}

/// Compare ucg's tokens with the reference tokens of the same text.
fn compare(text: &str, o: &mut Outcome) -> Option<Vec<Tok>> {
    let refs = match reflex::lex(text) {
        Ok(r) => r,
        Err(_) => {
            o.verdict = Verdict::Discard("reference lexer rejects the text".into());
            return None;
        }
    };
    if refs.iter().any(|t| t.unclaimed) {
        o.verdict = Verdict::Discard("boolean/NULL literal glued to a word character (unclaimed)".into());
        return None;
    }
    let refs: Vec<Tok> = refs.into_iter().filter(|t| t.kind != Kind::Comment).collect();
    let got = match ucglib::tokenizer::tokenize(OffsetStrIter::new(text), None) {
        Ok(g) => g,
        Err(e) => {
            o.fail(
                "C11/tokenize-error",
                format!("text {:?} has a valid token sequence [{}] but tokenize fails: {}", text,
                    refs.iter().map(show_ref).collect::<Vec<_>>().join(" "), e),
            );
            return None;
        }
    };
    let (end, got) = match got.split_last() {
        Some((e, g)) if e.typ == TokenType::END => (e.clone(), g.to_vec()),
        _ => {
            o.fail("C11/no-end-token", format!("token stream of {:?} does not end in END", text));
            return None;
        }
    };
    let summary = |got: &Vec<Token>| {
        format!(
            "text: {:?}\nreference: {}\nucg:       {}",
            text,
            refs.iter().map(show_ref).collect::<Vec<_>>().join(" "),
            got.iter().map(show_tok).collect::<Vec<_>>().join(" ")
        )
    };
    if got.len() != refs.len() {
        o.fail("C11/token-sequence", format!("token count differs\n{}", summary(&got)));
        return None;
    }
    for (g, r) in got.iter().zip(refs.iter()) {
        if kind_of(&g.typ).as_ref() != Some(&r.kind) {
            o.fail("C11/token-sequence", format!("token type differs\n{}", summary(&got)));
            return None;
        }
        if g.fragment.as_ref() != r.text {
            let sig = if r.kind == Kind::Quoted { "C11/string-value" } else { "C11/token-sequence" };
            o.fail(sig, format!("token text differs\n{}", summary(&got)));
            return None;
        }
        if g.pos.offset != r.offset || g.pos.line != r.line
            || (g.pos.column != r.col_bytes && g.pos.column != r.col_chars)
        {
            o.fail("C11/position", format!("token position differs (line:column+offset)\n{}", summary(&got)));
            return None;
        }
    }
    // END sits at the end of the text
    let nl = text.bytes().filter(|b| *b == b'\n').count();
    if end.pos.offset != text.len() || end.pos.line != nl + 1 {
        o.fail(
            "C11/position",
            format!("END token at {}:{}+{} but the text has {} bytes and {} lines\n{}",
                end.pos.line, end.pos.column, end.pos.offset, text.len(), nl + 1, summary(&got)),
        );
        return None;
    }
    Some(refs)
}

fn nontrivial_text(text: &str, refs: &[Tok]) -> bool {
    let multi = refs
        .windows(2)
        .any(|w| w[0].kind == Kind::Punct && w[1].kind == Kind::Punct && w[0].offset + w[0].src.len() == w[1].offset)
        || refs.iter().any(|t| t.kind == Kind::Punct && t.src.len() == 2);
    multi || !text.is_ascii() || text.contains("\r\n") || refs.iter().any(|t| t.line > 3)
}

impl C11 {
    pub fn new(_tier: Tier) -> Self {
        // statements of shipped ucg files as token slices (for layout metamorphism)
        let mut corpus = vec![];
        let mut files: Vec<std::path::PathBuf> = vec![];
        for dir in ["/repo/integration_tests", "/repo/std", "/repo/std/tests", "/repo/examples"] {
            if let Ok(rd) = std::fs::read_dir(dir) {
                for e in rd.flatten() {
                    let p = e.path();
                    if p.extension().and_then(|e| e.to_str()) == Some("ucg") {
                        files.push(p);
                    }
                }
            }
        }
        files.sort();
        for f in files {
            if let Ok(text) = std::fs::read_to_string(&f) {
                if let Ok(toks) = reflex::lex(&text) {
                    let mut cur: Vec<String> = vec![];
                    let mut depth = 0i32;
                    for t in toks {
                        if t.kind == Kind::Comment || t.unclaimed {
                            continue;
                        }
                        if t.kind == Kind::Punct {
                            match t.src.as_str() {
                                "{" | "(" | "[" => depth += 1,
                                "}" | ")" | "]" => depth -= 1,
                                _ => {}
                            }
                        }
                        let end = t.kind == Kind::Punct && t.src == ";" && depth == 0;
                        cur.push(t.src);
                        if end {
                            if cur.len() <= 120 {
                                corpus.push(std::mem::take(&mut cur));
                            } else {
                                cur.clear();
                            }
                        }
                    }
                }
            }
        }
        C11 {
            vocab: vocab(),
            small: small_vocab(),
            corpus,
            ucg: Ucg::new(),
        }
    }

    fn layout(&self, toks: &[String], tape: &mut Tape, allow_glue: bool) -> String {
        let mut s = String::new();
        // leading layout
        if tape.chance(1, 4) {
            s.push_str(*tape.pick(&["\n", "  ", "// lead\n", "\r\n", "\t"]));
        }
        for (i, t) in toks.iter().enumerate() {
            s.push_str(t);
            if i + 1 == toks.len() {
                break;
            }
            let glue_ok = allow_glue && reflex::can_glue(t, &toks[i + 1]);
            let k = tape.weighted(&[if glue_ok { 6 } else { 0 }, 8, 2, 2, 1, 1, 1, 1]);
            match k {
                0 => {}
                1 => s.push(' '),
                2 => s.push('\n'),
                3 => s.push_str("\r\n"),
                4 => s.push('\t'),
                5 => s.push_str(" // note\n"),
                6 => s.push_str("\n    "),
                _ => s.push_str(" // é ünï\r\n  "),
            }
        }
        if tape.chance(1, 3) {
            s.push_str(*tape.pick(&["\n", " ", "\r\n", " // tail", "\n// tail\n"]));
        }
        s
    }

    fn random_token(&self, tape: &mut Tape) -> String {
        match tape.weighted(&[10, 3, 2, 3]) {
            0 => self.vocab[tape.choice(self.vocab.len())].clone(),
            1 => {
                let n = 1 + tape.choice(8);
                let mut w = String::new();
                for i in 0..n {
                    let cs: &[u8] = if i == 0 {
                        b"abcxyzQRS"
                    } else {
                        b"abcxyzQRS0189_-"
                    };
                    w.push(cs[tape.choice(cs.len())] as char);
                }
                w
            }
            2 => format!("{}", tape.range(0, 99999)),
            _ => {
                let (lit, _) = gen_string_literal(tape, 8);
                lit
            }
        }
    }
}

/// A string literal (source text) and the value the reference says it denotes.
fn gen_string_literal(tape: &mut Tape, max_pieces: usize) -> (String, String) {
    let n = tape.choice(max_pieces + 1);
    let mut lit = String::from("\"");
    let mut val = String::new();
    for _ in 0..n {
        match tape.weighted(&[6, 3, 2, 2, 2, 1, 1, 1, 1, 1]) {
            0 => {
                let c = *tape.pick(&['a', 'b', 'Z', '0', ' ', '@', '%', '{', '}', '/', '\'', '$', '#', ';']);
                lit.push(c);
                val.push(c);
            }
            1 => {
                let c = *tape.pick(&['é', 'ß', 'ü', 'Ω', '→', '日', '本', '\u{a0}', '\u{85}', 'à', '😀', '\u{10FFFF}', '\u{7f}', '\u{1}', '\u{feff}', '\u{200b}', '\u{2028}']);
                lit.push(c);
                val.push(c);
            }
            2 => {
                lit.push_str("\\n");
                val.push('\n');
            }
            3 => {
                lit.push_str("\\\"");
                val.push('"');
            }
            4 => {
                lit.push_str("\\\\");
                val.push('\\');
            }
            5 => {
                lit.push_str("\\t");
                val.push('\t');
            }
            6 => {
                lit.push_str("\\r");
                val.push('\r');
            }
            7 => {
                // raw newline / tab inside the literal
                let c = *tape.pick(&['\n', '\t']);
                lit.push(c);
                val.push(c);
            }
            8 => {
                lit.push_str("\\@");
                val.push('@');
            }
            _ => {
                // escape of an arbitrary other character stands for the character
                let c = *tape.pick(&['x', 'q', '/', ' ', 'é', '0', '\'']);
                lit.push('\\');
                lit.push(c);
                val.push(c);
            }
        }
    }
    lit.push('"');
    (lit, val)
}

impl Property for C11 {
    fn id(&self) -> &'static str {
        "C11"
    }
    fn rule(&self) -> String {
        format!("enumerated: all pairs of a {}-token vocabulary x 7 separators (none, blank, LF, CRLF, tab, comment) and all triples of a {}-token vocabulary x glued/blank separators, each compared token by token (type, text, byte offset, line, column) with a reference maximal-munch lexer; generated: random token sequences <= 40 tokens under random layout, statements of every shipped .ucg file re-laid-out (same tokens and same parsed program required), Unicode string literals with every escape form (token text and evaluated value). Non-trivial: adjacent/multi-character operators, non-ASCII text, CRLF or a token after line 3; distinct by source text.", vocab().len(), small_vocab().len())
    }
    fn assumptions(&self) -> Vec<String> {
        vec![
            "1 in 400 generated cases types a string literal over several lines (blanks next to the line breaks) into `ucg repl` and compares it there with the one-line literal using \\n escapes".into(),
            "lexical grammar of reference/grammar.md and the escape list of reference/types.md are the specification".into(),
            "a boolean/NULL literal glued to a word character is unclaimed and discarded".into(),
            "column may be counted in bytes or in characters".into(),
        ]
    }
    fn budget(&self, tier: Tier) -> Budget {
        Budget {
            cases: match tier {
                Tier::Quick => 24_000,
                Tier::Thorough => 1_000_000,
            },
            tape_min: 4,
            tape_max: 200,
        }
    }
    fn fixed_count(&mut self, _tier: Tier) -> u64 {
        let v = self.vocab.len() as u64;
        let s = self.small.len() as u64;
        v * v * SEPS.len() as u64 + s * s * s * 4
    }
    fn fixed_exhaustive(&self) -> bool {
        true
    }
    fn run_fixed(&mut self, index: u64) -> Outcome {
        let v = self.vocab.len() as u64;
        let pairs = v * v * SEPS.len() as u64;
        let (text, chosen, spaced): (String, Vec<&String>, bool);
        if index < pairs {
            let sep = SEPS[(index % SEPS.len() as u64) as usize];
            let r = index / SEPS.len() as u64;
            let a = &self.vocab[(r % v) as usize];
            let b = &self.vocab[(r / v) as usize];
            text = format!("{}{}{}", a, sep, b);
            chosen = vec![a, b];
            spaced = sep.starts_with(|c: char| c.is_ascii_whitespace());
        } else {
            let mut r = index - pairs;
            let s = self.small.len() as u64;
            let s1 = SEPS_SMALL[(r % 2) as usize];
            r /= 2;
            let s2 = SEPS_SMALL[(r % 2) as usize];
            r /= 2;
            let a = &self.small[(r % s) as usize];
            r /= s;
            let b = &self.small[(r % s) as usize];
            r /= s;
            let c = &self.small[(r % s) as usize];
            text = format!("{}{}{}{}{}", a, s1, b, s2, c);
            chosen = vec![a, b, c];
            spaced = !s1.is_empty() && !s2.is_empty();
        }
        let mut o = Outcome::pass(text.clone());
        o.portable = Some(text.clone());
        o.class(if index < pairs { "pair" } else { "triple" });
        if let Some(refs) = compare(&text, &mut o) {
            if spaced {
                // harness self-check: separated tokens are exactly the chosen ones
                let srcs: Vec<&String> = refs.iter().map(|t| &t.src).collect();
                assert_eq!(srcs, chosen, "reference lexer disagrees with the vocabulary on {:?}", text);
            }
            o.nontrivial = nontrivial_text(&text, &refs);
        }
        o
    }
    fn run_tape(&mut self, words: &[u32]) -> Outcome {
        let mut tape = Tape::new(words);
        if tape.chance(1, 400) {
            // a string literal typed over several lines into `ucg repl`
            let n = 1 + tape.choice(4);
            let mut lines: Vec<String> = vec![];
            for _ in 0..=n {
                let pre = " ".repeat(tape.choice(3));
                let post = *tape.pick(&["", " ", "  ", "\t"]);
                lines.push(format!("{}{}{}", pre, tape.pick(&["a", "b c", "é", "", "x=1; y", "// no comment"]), post));
            }
            return repl_string_check(&lines);
        }
        let mode = tape.weighted(&[4, 4, 3]);
        match mode {
            0 => {
                // random token sequence, random layout
                let n = 1 + tape.choice(40);
                let toks: Vec<String> = (0..n).map(|_| self.random_token(&mut tape)).collect();
                let text = self.layout(&toks, &mut tape, true);
                let mut o = Outcome::pass(text.clone());
                o.portable = Some(text.clone());
                o.class("random-sequence");
                if let Some(refs) = compare(&text, &mut o) {
                    o.nontrivial = nontrivial_text(&text, &refs);
                    // second layout, all tokens separated: same (type, text) sequence
                    let text2 = self.layout(&toks, &mut tape, false);
                    let mut o2 = Outcome::pass(text2.clone());
                    if let Some(refs2) = compare(&text2, &mut o2) {
                        let a: Vec<(&Kind, &String)> = refs.iter().map(|t| (&t.kind, &t.text)).collect();
                        let b: Vec<(&Kind, &String)> = refs2.iter().map(|t| (&t.kind, &t.text)).collect();
                        if a != b {
                            // both layouts agreed with the reference individually, so this is the reference's own glue rule
                            panic!("harness: layouts of one sequence lex differently: {:?} vs {:?}", text, text2);
                        }
                    }
                    if let Verdict::Fail { sig, msg } = o2.verdict {
                        o.fail(&sig, msg);
                    }
                }
                o
            }
            1 => {
                // statement(s) of shipped files under a new layout: same tokens, same program
                if self.corpus.is_empty() {
                    return Outcome::discard("no corpus", String::new());
                }
                let k = 1 + tape.choice(3);
                let mut toks: Vec<String> = vec![];
                for _ in 0..k {
                    let st = &self.corpus[tape.choice(self.corpus.len())];
                    toks.extend(st.iter().cloned());
                }
                let canon = toks.join(" ");
                let text = self.layout(&toks, &mut tape, true);
                let mut o = Outcome::pass(text.clone());
                o.portable = Some(text.clone());
                o.class("corpus-relayout");
                if let Some(refs) = compare(&text, &mut o) {
                    o.nontrivial = nontrivial_text(&text, &refs);
                    let srcs: Vec<&String> = refs.iter().map(|t| &t.src).collect();
                    assert_eq!(srcs, toks.iter().collect::<Vec<_>>(), "layout changed the reference token sequence");
                    let p1 = norm::parse_program(&canon).map(|s| norm::norm_program(&s, false));
                    let p2 = norm::parse_program(&text).map(|s| norm::norm_program(&s, false));
                    match (p1, p2) {
                        (Ok(a), Ok(b)) => {
                            if a != b {
                                o.fail("C11/layout-changes-program", format!("two layouts of one token sequence parse differently\nA: {:?}\nB: {:?}\nA => {:?}\nB => {:?}", canon, text, a, b));
                            }
                        }
                        (Ok(_), Err(e)) => o.fail("C11/layout-changes-program", format!("single-blank layout parses, this layout does not: {}\nA: {:?}\nB: {:?}", e, canon, text)),
                        (Err(e), Ok(_)) => o.fail("C11/layout-changes-program", format!("this layout parses, the single-blank layout does not: {}\nA: {:?}\nB: {:?}", e, canon, text)),
                        (Err(_), Err(_)) => o.class("corpus-unparsable"),
                    }
                }
                o
            }
            _ => {
                // string literal: token text and evaluated value
                let (lit, val) = gen_string_literal(&mut tape, 14);
                let lead = *tape.pick(&["", " ", "\n", "// c\n", "\r\n\t"]);
                let text = format!("{}let s = {};", lead, lit);
                let mut o = Outcome::pass(text.clone());
                o.portable = Some(text.clone());
                o.class("string-literal");
                if let Some(refs) = compare(&text, &mut o) {
                    o.nontrivial = nontrivial_text(&text, &refs) || lit.contains('\\');
                    let r = refs.iter().find(|t| t.kind == Kind::Quoted).map(|t| t.text.clone());
                    assert_eq!(r.as_deref(), Some(val.as_str()), "reference lexer decodes {:?} differently from the generator", lit);
                    // value observed in build output
                    self.ucg.reset();
                    match self.ucg.eval(&text, true) {
                        Ok(v) => {
                            let got = match v.as_ref() {
                                Val::Tuple(fs) => fs.iter().find(|(k, _)| k.as_ref() == "s").map(|(_, v)| v.clone()),
                                _ => None,
                            };
                            match got.as_deref() {
                                Some(Val::Str(s)) if s.as_ref() == val => {}
                                other => o.fail("C11/string-value", format!("literal {} should evaluate to {:?} but the build binds {:?}", lit, val, other)),
                            }
                        }
                        Err(e) => o.fail("C11/string-value", format!("literal {} does not evaluate: {}", lit, e)),
                    }
                    // the same source read from a file on disk (1 in 8)
                    if !o.is_fail() && fnv(text.as_bytes()) % 8 == 0 {
                        o.class("string-literal-in-a-file");
                        self.ucg.reset();
                        let (path, r) = self.ucg.build_src(&text, true);
                        self.ucg.cleanup_case_dir(&path);
                        match r {
                            Ok(v) => {
                                let got = match v.as_ref() {
                                    Val::Tuple(fs) => fs.iter().find(|(k, _)| k.as_ref() == "s").map(|(_, v)| v.clone()),
                                    _ => None,
                                };
                                match got.as_deref() {
                                    Some(Val::Str(s)) if s.as_ref() == val => {}
                                    other => o.fail("C11/string-value-in-file", format!("literal {} in a file on disk should evaluate to {:?} but the build binds {:?}", lit, val, other)),
                                }
                            }
                            Err(e) => o.fail("C11/string-value-in-file", format!("literal {} evaluates from a string but not from a file: {}", lit, e)),
                        }
                    }
                }
                o
            }
        }
    }
    fn vacuity_floor(&self) -> Vec<(&'static str, f64)> {
        vec![("corpus-relayout", 1.0), ("string-literal", 1.0)]
    }
    fn run_text(&mut self, text: &str) -> Outcome {
        if let Some(rest) = text.strip_prefix("REPL-STRING\n") {
            let lines: Vec<String> = rest.split('\n').map(|l| l.to_string()).collect();
            return repl_string_check(&lines);
        }
        // replay of a saved source text: tokens, positions, and the value of every
        // `let <name> = "<literal>";` it binds
        let mut o = Outcome::pass(text.to_string());
        o.class("text-replay");
        if let Some(refs) = compare(text, &mut o) {
            o.nontrivial = nontrivial_text(text, &refs);
            let shape_ok = refs.len() == 5
                && refs[0].src == "let"
                && refs[1].kind == Kind::Bareword
                && refs[2].src == "="
                && refs[3].kind == Kind::Quoted
                && refs[4].src == ";";
            if shape_ok {
                self.ucg.reset();
                let name = refs[1].src.clone();
                let want = refs[3].text.clone();
                match self.ucg.eval(text, true) {
                    Ok(v) => {
                        let got = match v.as_ref() {
                            Val::Tuple(fs) => fs.iter().find(|(k, _)| k.as_ref() == name).map(|(_, v)| v.clone()),
                            _ => None,
                        };
                        match got.as_deref() {
                            Some(Val::Str(s)) if s.as_ref() == want => {}
                            other => o.fail("C11/string-value", format!("literal {} should evaluate to {:?} but the build binds {:?}", refs[3].src, want, other)),
                        }
                    }
                    Err(e) => o.fail("C11/string-value", format!("literal does not evaluate: {}", e)),
                }
            }
        }
        o
    }
}

#[allow(dead_code)]
fn key_of(s: &str) -> u64 {
    fnv(s.as_bytes())
}

/// A string literal typed over several physical lines into `ucg repl` keeps every character,
/// blanks next to the line breaks included: it equals the one-line literal with `\n` escapes.
fn repl_string_check(lines: &[String]) -> Outcome {
    let body = lines.join("\n");
    let one_line = format!("\"{}\"", body.replace('\\', "\\\\").replace('"', "\\\"").replace('\n', "\\n"));
    let script = format!("let s = \"{}\";\ns == {};\n", body, one_line);
    let mut o = Outcome::pass(format!("[ucg repl]\n{}", script));
    o.key = fnv(script.as_bytes());
    o.portable = Some(format!("REPL-STRING\n{}", body));
    o.class("repl-multi-line-string");
    o.nontrivial = true;
    let dir = crate::ucgrun::new_scratch_dir("c11repl");
    let r = crate::cli::run_repl(&script, vec![], true, &dir, &dir);
    let _ = std::fs::remove_dir_all(&dir);
    if r.timed_out {
        o.verdict = Verdict::Discard("watchdog: ucg repl did not finish within 60 s".into());
        return o;
    }
    let out = crate::cli::repl_lines(&r);
    match out.last().map(|l| l.trim()) {
        Some("true") => {}
        Some("false") => o.fail("C11/repl-string-value", format!("the literal typed over {} lines does not equal {}\nsession:\n{}\noutput:\n{}", lines.len(), one_line, script, out.join("\n"))),
        _ => o.class("repl-output-unrecognised"),
    }
    o
}
