//! C08 — shell-facing output delivers every value as one unaltered word.
//!
//! Oracle: real shells.  The env / flags / exec converter output is read back
//! by /bin/sh (dash) and bash; the words and variables they see must be exactly
//! the values that went in, and nothing inside a value may be executed.

use crate::core::*;
use crate::gval::{gen_char, GVal};
use crate::tape::{fnv, Tape};
use serde_json::{json, Value as J};
use std::path::PathBuf;
use ucglib::convert::ConverterRegistry;

const ALPHABET: [char; 9] = ['\'', '"', '\\', '$', '`', ' ', '\n', '*', 'a'];
const UNSET: &str = "__ucgverif_UNSET_7f3a__";

#[derive(Clone, Debug, PartialEq)]
enum Conv {
    Env,
    Flags,
    Exec,
}

#[derive(Clone, Debug)]
enum Want {
    /// variable must hold this value; None = must be unset
    Var(String, Option<Scalar>),
    /// argv must be this sequence; items marked optional (a NULL flag name) may be absent
    Argv(Vec<(Scalar, bool)>),
}

#[derive(Clone, Debug, PartialEq)]
enum Scalar {
    Str(String),
    Int(i64),
    Bool(bool),
    Float(f64),
}

impl Scalar {
    fn matches(&self, got: &[u8]) -> bool {
        match self {
            Scalar::Str(s) => s.as_bytes() == got,
            Scalar::Int(i) => i.to_string().as_bytes() == got,
            Scalar::Bool(b) => (if *b { "true" } else { "false" }).as_bytes() == got,
            Scalar::Float(f) => std::str::from_utf8(got).ok().and_then(|s| s.parse::<f64>().ok()) == Some(*f),
        }
    }
    fn show(&self) -> String {
        match self {
            Scalar::Str(s) => format!("{:?}", s),
            Scalar::Int(i) => i.to_string(),
            Scalar::Bool(b) => b.to_string(),
            Scalar::Float(f) => format!("{:?}", f),
        }
    }
    fn to_gval(&self) -> GVal {
        match self {
            Scalar::Str(s) => GVal::Str(s.clone()),
            Scalar::Int(i) => GVal::Int(*i),
            Scalar::Bool(b) => GVal::Bool(*b),
            Scalar::Float(f) => GVal::Float(*f),
        }
    }
}

#[derive(Clone, Debug)]
struct SubCase {
    label: String,
    conv: Conv,
    input: GVal,
    wants: Vec<Want>,
    /// the case carries a shell-active character or a scalar after a skipped field
    nontrivial: bool,
}

struct ShellOut {
    items: Vec<Vec<u8>>,
    stderr: String,
    canary: bool,
}

pub struct C08 {
    tier: Tier,
    reg: ConverterRegistry,
    have_bash: bool,
    have_sh: bool,
}

fn str_of_index(mut idx: u64) -> String {
    // 0 -> "", then all strings of length 1, 2, …
    let mut len = 0;
    let mut count = 1u64;
    while idx >= count {
        idx -= count;
        len += 1;
        count *= 9;
    }
    let mut s = String::new();
    for _ in 0..len {
        s.push(ALPHABET[(idx % 9) as usize]);
        idx /= 9;
    }
    s
}

fn strings_up_to(len: u32) -> u64 {
    (0..=len).map(|l| 9u64.pow(l)).sum()
}

fn tup(fs: Vec<(&str, GVal)>) -> GVal {
    GVal::Tuple(fs.into_iter().map(|(k, v)| (k.to_string(), v)).collect())
}

fn s(v: &str) -> GVal {
    GVal::Str(v.to_string())
}

fn st(v: &str) -> (Scalar, bool) {
    (Scalar::Str(v.to_string()), false)
}

fn shell_active(x: &str) -> bool {
    x.chars().any(|c| matches!(c, '\'' | '"' | '\\' | '$' | '`' | ' ' | '\n' | '\t' | '*' | '?' | '[' | '~' | ';' | '&' | '|' | '<' | '>' | '(' | ')' | '#' | '!' | '{')) || x.is_empty()
}

/// The seven placements of one string.
fn placements(x: &str) -> Vec<SubCase> {
    let nt = shell_active(x);
    let mk = |label: &str, conv: Conv, input: GVal, wants: Vec<Want>| SubCase {
        label: label.to_string(),
        conv,
        input,
        wants,
        nontrivial: nt,
    };
    vec![
        mk("env-value", Conv::Env, tup(vec![("A", s("before")), ("V", s(x)), ("Z", s("after"))]),
            vec![Want::Var("A".into(), Some(Scalar::Str("before".into()))), Want::Var("V".into(), Some(Scalar::Str(x.into()))), Want::Var("Z".into(), Some(Scalar::Str("after".into())))]),
        mk("flag-value", Conv::Flags, tup(vec![("name", s(x)), ("next", s("n"))]),
            vec![Want::Argv(vec![st("--name"), st(x), st("--next"), st("n")])]),
        mk("list-flag-item", Conv::Flags, tup(vec![("name", GVal::List(vec![s("first"), s(x), s("last")]))]),
            vec![Want::Argv(vec![st("--name"), st("first"), st("--name"), st(x), st("--name"), st("last")])]),
        mk("exec-command", Conv::Exec, tup(vec![("command", s(x)), ("args", GVal::List(vec![s("a")]))]),
            vec![Want::Argv(vec![st(x), st("a")])]),
        mk("exec-arg", Conv::Exec, tup(vec![("command", s("cmd")), ("args", GVal::List(vec![s("a"), s(x), s("b")]))]),
            vec![Want::Argv(vec![st("cmd"), st("a"), st(x), st("b")])]),
        mk("exec-env-value", Conv::Exec, tup(vec![("env", tup(vec![("E", s(x)), ("F", s("after"))])), ("command", s("cmd"))]),
            vec![Want::Var("E".into(), Some(Scalar::Str(x.into()))), Want::Var("F".into(), Some(Scalar::Str("after".into()))), Want::Argv(vec![st("cmd")])]),
        mk("exec-arg-flag", Conv::Exec, tup(vec![("command", s("cmd")), ("args", GVal::List(vec![tup(vec![("name", s(x))]), s("tail")]))]),
            vec![Want::Argv(vec![st("cmd"), st("--name"), st(x), st("tail")])]),
    ]
}

/// Tuples mixing scalar / NULL / list / tuple fields: index -> shape.
fn shape_of_index(mut idx: u64) -> Vec<u8> {
    // shapes of length 1..5 over 4 kinds: 4 + 16 + 64 + 256 + 1024 = 1364
    let mut len = 1;
    let mut count = 4u64;
    while idx >= count {
        idx -= count;
        len += 1;
        count *= 4;
    }
    let mut v = vec![];
    for _ in 0..len {
        v.push((idx % 4) as u8);
        idx /= 4;
    }
    v
}

const SHAPES: u64 = 4 + 16 + 64 + 256 + 1024;

fn shape_cases(shape: &[u8], variant: u64) -> Vec<SubCase> {
    // kinds: 0 scalar, 1 NULL, 2 list, 3 tuple
    let mut fields: Vec<(String, GVal)> = vec![];
    let mut env_wants = vec![];
    let mut argv: Vec<(Scalar, bool)> = vec![];
    let mut skipped_before_scalar = false;
    let mut seen_skip = false;
    for (i, k) in shape.iter().enumerate() {
        let name = format!("F{}", i);
        match k {
            0 => {
                let sc = match (variant + i as u64) % 4 {
                    0 => Scalar::Str(format!("v {}'$x", i)),
                    1 => Scalar::Int(40 + i as i64),
                    2 => Scalar::Bool(i % 2 == 0),
                    _ => Scalar::Float(1.5 + i as f64),
                };
                fields.push((name.clone(), sc.to_gval()));
                env_wants.push(Want::Var(name.clone(), Some(sc.clone())));
                argv.push((Scalar::Str(format!("--{}", name)), false));
                argv.push((sc, false));
                if seen_skip {
                    skipped_before_scalar = true;
                }
            }
            1 => {
                fields.push((name.clone(), GVal::Null));
                env_wants.push(Want::Var(name.clone(), None));
                // flags: a NULL field is a bare flag name (docs example) or nothing (docs text)
                argv.push((Scalar::Str(format!("--{}", name)), true));
                seen_skip = true;
            }
            2 => {
                // a list flag repeats the flag for every primitive item; items that are lists
                // or tuples are left out wherever they stand
                let nested_list = GVal::List(vec![s("nested")]);
                let nested_tuple = tup(vec![("t", GVal::Int(1))]);
                let items: Vec<GVal> = match (variant / 4 + i as u64) % 3 {
                    0 => vec![GVal::Int(1), s("l i")],
                    1 => vec![GVal::Int(1), nested_list, s("l i")],
                    _ => vec![nested_tuple, GVal::Int(1), nested_list, s("l i")],
                };
                fields.push((name.clone(), GVal::List(items)));
                env_wants.push(Want::Var(name.clone(), None));
                argv.push((Scalar::Str(format!("--{}", name)), false));
                argv.push((Scalar::Int(1), false));
                argv.push((Scalar::Str(format!("--{}", name)), false));
                argv.push((Scalar::Str("l i".into()), false));
                seen_skip = true;
            }
            _ => {
                fields.push((name.clone(), tup(vec![("inner", s("t"))])));
                env_wants.push(Want::Var(name.clone(), None));
                seen_skip = true;
            }
        }
    }
    let input = GVal::Tuple(fields);
    vec![
        SubCase { label: "env-shape".into(), conv: Conv::Env, input: input.clone(), wants: env_wants, nontrivial: skipped_before_scalar },
        SubCase { label: "flags-shape".into(), conv: Conv::Flags, input, wants: vec![Want::Argv(argv)], nontrivial: skipped_before_scalar },
    ]
}

impl C08 {
    pub fn new(tier: Tier) -> Self {
        let have = |p: &str| std::path::Path::new(p).exists();
        C08 {
            tier,
            reg: ConverterRegistry::make_registry(),
            have_bash: have("/bin/bash") || have("/usr/bin/bash"),
            have_sh: have("/bin/sh"),
        }
    }

    fn convert(&self, c: &SubCase) -> Result<Vec<u8>, String> {
        let name = match c.conv {
            Conv::Env => "env",
            Conv::Flags => "flags",
            Conv::Exec => "exec",
        };
        let conv = self.reg.get_converter(name).expect("converter");
        let mut buf = vec![];
        conv.convert(c.input.to_val(), &mut buf).map_err(|e| format!("{}", e))?;
        Ok(buf)
    }

    /// Hand the converter outputs of `cases` to one shell process.
    fn run_shell(&self, shell: &str, cases: &[(SubCase, Vec<u8>)]) -> Vec<Option<ShellOut>> {
        let dir: PathBuf = crate::ucgrun::new_scratch_dir("c08");
        let mut script = String::new();
        script.push_str("__argv() { printf '%s\\0' ARGV \"$#\" \"$@\"; }\n");
        let mut ran = vec![false; cases.len()];
        for (i, (c, text)) in cases.iter().enumerate() {
            if c.conv == Conv::Exec && shell != "bash" {
                continue; // the script declares bash
            }
            ran[i] = true;
            std::fs::write(dir.join(format!("c{}.in", i)), text).expect("write case");
            std::fs::create_dir_all(dir.join(format!("w{}", i))).expect("mkdir");
            let vars: Vec<&String> = c.wants.iter().filter_map(|w| if let Want::Var(n, _) = w { Some(n) } else { None }).collect();
            let mut dump = String::new();
            for v in &vars {
                dump.push_str(&format!(" \"${{{}-{}}}\"", v, UNSET));
            }
            match c.conv {
                Conv::Env => script.push_str(&format!(
                    "( cd w{i} && . ../c{i}.in && printf '%s\\0' VARS{dump} ) > o{i} 2> e{i}\n",
                    i = i, dump = dump
                )),
                Conv::Flags => script.push_str(&format!(
                    "( cd w{i} && eval \"__argv $(cat ../c{i}.in)\" ) > o{i} 2> e{i}\n",
                    i = i
                )),
                Conv::Exec => script.push_str(&format!(
                    "( cd w{i} && exec() {{ __argv \"$@\"; printf '%s\\0' VARS{dump}; }} && . ../c{i}.in ) > o{i} 2> e{i}\n",
                    i = i, dump = dump
                )),
            }
        }
        std::fs::write(dir.join("run.sh"), &script).expect("write script");
        let program = if shell == "bash" { "bash" } else { "/bin/sh" };
        let status = std::process::Command::new(program)
            .arg("run.sh")
            .current_dir(&dir)
            .env_clear()
            .env("PATH", "/usr/bin:/bin")
            .stdin(std::process::Stdio::null())
            .stdout(std::process::Stdio::null())
            .stderr(std::process::Stdio::null())
            .status();
        if status.is_err() {
            panic!("harness: cannot run {}", program);
        }
        let mut out = vec![];
        for i in 0..cases.len() {
            if !ran[i] {
                out.push(None);
                continue;
            }
            let bytes = std::fs::read(dir.join(format!("o{}", i))).unwrap_or_default();
            let mut items: Vec<Vec<u8>> = bytes.split(|b| *b == 0).map(|x| x.to_vec()).collect();
            if items.last().map(|l| l.is_empty()).unwrap_or(false) {
                items.pop();
            }
            let stderr = String::from_utf8_lossy(&std::fs::read(dir.join(format!("e{}", i))).unwrap_or_default()).into_owned();
            let canary = std::fs::read_dir(dir.join(format!("w{}", i))).map(|d| d.count() > 0).unwrap_or(false);
            out.push(Some(ShellOut { items, stderr, canary }));
        }
        let _ = std::fs::remove_dir_all(&dir);
        out
    }

    fn judge(&self, c: &SubCase, text: &[u8], shell: &str, so: &ShellOut, o: &mut Outcome) {
        let shown = String::from_utf8_lossy(text);
        let ctx = |why: String| {
            format!(
                "{} [{} read by {}]\ninput: {}\nconverter output:\n{}\nshell stderr: {}",
                why, c.label, shell, c.input.show(), shown, so.stderr.trim()
            )
        };
        if so.canary {
            o.fail(&format!("C08/executed:{}", c.label), ctx("something inside a value was executed (a file appeared in the working directory)".into()));
            return;
        }
        // split the NUL-separated report into ARGV and VARS sections
        let mut argv: Option<Vec<Vec<u8>>> = None;
        let mut vars: Option<Vec<Vec<u8>>> = None;
        let mut i = 0;
        while i < so.items.len() {
            if so.items[i] == b"ARGV" && i + 1 < so.items.len() {
                let n: usize = String::from_utf8_lossy(&so.items[i + 1]).parse().unwrap_or(usize::MAX);
                if n == usize::MAX || i + 2 + n > so.items.len() {
                    break;
                }
                argv = Some(so.items[i + 2..i + 2 + n].to_vec());
                i += 2 + n;
            } else if so.items[i] == b"VARS" {
                let nv = c.wants.iter().filter(|w| matches!(w, Want::Var(..))).count();
                if i + 1 + nv > so.items.len() {
                    break;
                }
                vars = Some(so.items[i + 1..i + 1 + nv].to_vec());
                i += 1 + nv;
            } else {
                break;
            }
        }
        let mut vi = 0;
        for w in &c.wants {
            match w {
                Want::Var(name, want) => {
                    let got = match &vars {
                        Some(v) => v.get(vi).cloned(),
                        None => None,
                    };
                    vi += 1;
                    let got = match got {
                        Some(g) => g,
                        None => {
                            o.fail(&format!("C08/unreadable:{}", c.label), ctx("the shell could not read the output (no variable report)".into()));
                            return;
                        }
                    };
                    match want {
                        Some(sc) => {
                            if got == UNSET.as_bytes() {
                                o.fail(&format!("C08/field-lost:{}", c.label), ctx(format!("variable {} should be {} but is unset", name, sc.show())));
                                return;
                            }
                            if !sc.matches(&got) {
                                o.fail(&format!("C08/value-altered:{}", c.label), ctx(format!("variable {} should be {} but the shell sees {:?}", name, sc.show(), String::from_utf8_lossy(&got))));
                                return;
                            }
                        }
                        None => {
                            if got != UNSET.as_bytes() {
                                o.fail(&format!("C08/skipped-field-set:{}", c.label), ctx(format!("skipped field {} should leave no variable but the shell sees {:?}", name, String::from_utf8_lossy(&got))));
                                return;
                            }
                        }
                    }
                }
                Want::Argv(want) => {
                    let got = match &argv {
                        Some(a) => a,
                        None => {
                            o.fail(&format!("C08/unreadable:{}", c.label), ctx("the shell could not read the output (no argument report)".into()));
                            return;
                        }
                    };
                    // align, optional items may be absent
                    let mut gi = 0;
                    let mut ok = true;
                    for (sc, optional) in want {
                        match got.get(gi) {
                            Some(g) if sc.matches(g) => gi += 1,
                            _ if *optional => {}
                            _ => {
                                ok = false;
                                break;
                            }
                        }
                    }
                    if !ok || gi != got.len() {
                        o.fail(
                            &format!("C08/words-differ:{}", c.label),
                            ctx(format!(
                                "expected words [{}] but the shell sees [{}]",
                                want.iter().map(|(s, opt)| format!("{}{}", s.show(), if *opt { "?" } else { "" })).collect::<Vec<_>>().join(", "),
                                got.iter().map(|g| format!("{:?}", String::from_utf8_lossy(g))).collect::<Vec<_>>().join(", ")
                            )),
                        );
                        return;
                    }
                }
            }
        }
    }

    fn run_cases(&mut self, cases: Vec<SubCase>) -> Vec<Outcome> {
        let mut outs: Vec<Outcome> = vec![];
        let mut live: Vec<(usize, SubCase, Vec<u8>)> = vec![];
        for c in cases {
            let rendered = format!("{} <- {}", c.label, c.input.show());
            let mut o = Outcome::pass(rendered.clone());
            o.key = fnv(rendered.as_bytes());
            o.nontrivial = c.nontrivial;
            o.class(&c.label);
            o.portable = Some(subcase_to_json(&c).to_string());
            match self.convert(&c) {
                Ok(text) => live.push((outs.len(), c, text)),
                Err(e) => o.fail(&format!("C08/rejected:{}", c.label), format!("the converter rejects a valid input: {}\n{}", e, rendered)),
            }
            outs.push(o);
        }
        let pairs: Vec<(SubCase, Vec<u8>)> = live.iter().map(|(_, c, t)| (c.clone(), t.clone())).collect();
        for shell in ["sh", "bash"] {
            if (shell == "sh" && !self.have_sh) || (shell == "bash" && !self.have_bash) {
                panic!("harness: shell {} is not installed", shell);
            }
            let results = self.run_shell(shell, &pairs);
            for ((idx, c, text), r) in live.iter().zip(results.iter()) {
                if let Some(so) = r {
                    if !outs[*idx].is_fail() {
                        let mut o = std::mem::replace(&mut outs[*idx], Outcome::pass(String::new()));
                        self.judge(c, text, shell, so, &mut o);
                        outs[*idx] = o;
                    }
                }
            }
        }
        outs
    }
}

fn scalar_to_json(s: &Scalar) -> J {
    match s {
        Scalar::Str(x) => json!({"s": x}),
        Scalar::Int(i) => json!({"i": i}),
        Scalar::Bool(b) => json!({"b": b}),
        Scalar::Float(f) => json!({"f": f}),
    }
}

fn scalar_from_json(j: &J) -> Option<Scalar> {
    if let Some(x) = j.get("s") {
        return Some(Scalar::Str(x.as_str()?.to_string()));
    }
    if let Some(x) = j.get("i") {
        return Some(Scalar::Int(x.as_i64()?));
    }
    if let Some(x) = j.get("b") {
        return Some(Scalar::Bool(x.as_bool()?));
    }
    Some(Scalar::Float(j.get("f")?.as_f64()?))
}

fn subcase_to_json(c: &SubCase) -> J {
    json!({
        "label": c.label,
        "conv": match c.conv { Conv::Env => "env", Conv::Flags => "flags", Conv::Exec => "exec" },
        "input": c.input.to_json(),
        "nontrivial": c.nontrivial,
        "wants": c.wants.iter().map(|w| match w {
            Want::Var(n, v) => json!({"var": n, "value": v.as_ref().map(scalar_to_json)}),
            Want::Argv(a) => json!({"argv": a.iter().map(|(s, o)| json!([scalar_to_json(s), o])).collect::<Vec<_>>()}),
        }).collect::<Vec<_>>(),
    })
}

fn subcase_from_json(j: &J) -> Option<SubCase> {
    let conv = match j.get("conv")?.as_str()? {
        "env" => Conv::Env,
        "flags" => Conv::Flags,
        _ => Conv::Exec,
    };
    let mut wants = vec![];
    for w in j.get("wants")?.as_array()? {
        if let Some(n) = w.get("var") {
            let v = match w.get("value") {
                Some(J::Null) | None => None,
                Some(x) => Some(scalar_from_json(x)?),
            };
            wants.push(Want::Var(n.as_str()?.to_string(), v));
        } else {
            let mut a = vec![];
            for it in w.get("argv")?.as_array()? {
                a.push((scalar_from_json(it.get(0)?)?, it.get(1)?.as_bool()?));
            }
            wants.push(Want::Argv(a));
        }
    }
    Some(SubCase {
        label: j.get("label")?.as_str()?.to_string(),
        conv,
        input: GVal::from_json(j.get("input")?)?,
        wants,
        nontrivial: j.get("nontrivial").and_then(|b| b.as_bool()).unwrap_or(false),
    })
}

const BATCH: u64 = 48;

impl Property for C08 {
    fn id(&self) -> &'static str {
        "C08"
    }
    fn rule(&self) -> String {
        "enumerated: every string of length <= 3 (quick) / <= 5 (thorough) over the alphabet {' \" \\ $ ` space newline * a} in seven placements (env value, flag value, list-flag item, exec command, exec argument, exec env value, exec flag-tuple value) and every tuple of 1..5 fields over the kinds {scalar, NULL, list, tuple} (1,364 shapes) for env and flags; generated: random Unicode strings up to 40 chars (incl. command substitutions that would leave a file behind) in the same placements. The converter output is sourced / eval-ed by /bin/sh (dash) and bash and the variables and argument words they report must equal the inputs. Non-trivial: the value has a shell-active character, or a scalar field follows a skipped one; distinct by (placement, input).".into()
    }
    fn assumptions(&self) -> Vec<String> {
        vec![
            "dash (/bin/sh) and bash are the meaning of 'a POSIX shell'; exec scripts declare bash and are read by bash only".into(),
            "exec scripts are read with `exec` replaced by a reporting function (the word list is unchanged)".into(),
            "field, flag and variable names are safe identifiers; a NULL flag may be written as a bare flag name or omitted".into(),
        ]
    }
    fn shards(&self) -> usize {
        16
    }
    fn budget(&self, tier: Tier) -> Budget {
        Budget {
            cases: match tier {
                Tier::Quick => 400,
                Tier::Thorough => 8_000,
            },
            tape_min: 8,
            tape_max: 400,
        }
    }
    fn fixed_count(&mut self, tier: Tier) -> u64 {
        let n = strings_up_to(if tier == Tier::Quick { 3 } else { 5 });
        (n + BATCH - 1) / BATCH + (SHAPES + BATCH - 1) / BATCH
    }
    fn fixed_exhaustive(&self) -> bool {
        true
    }
    fn run_fixed_batch(&mut self, index: u64) -> Vec<Outcome> {
        let n = strings_up_to(if self.tier == Tier::Quick { 3 } else { 5 });
        let sb = (n + BATCH - 1) / BATCH;
        let mut cases = vec![];
        if index < sb {
            for k in index * BATCH..((index + 1) * BATCH).min(n) {
                cases.extend(placements(&str_of_index(k)));
            }
        } else {
            let b = index - sb;
            for k in b * BATCH..((b + 1) * BATCH).min(SHAPES) {
                cases.extend(shape_cases(&shape_of_index(k), k));
            }
        }
        self.run_cases(cases)
    }
    fn run_tape_batch(&mut self, words: &[u32]) -> Vec<Outcome> {
        let mut t = Tape::new(words);
        let n = 1 + t.choice(12);
        let mut cases = vec![];
        for _ in 0..n {
            let x: String = match t.weighted(&[6, 2, 2]) {
                0 => {
                    let len = t.choice(41);
                    (0..len)
                        .map(|_| {
                            let c = gen_char(&mut t);
                            if c == '\0' { 'x' } else { c }
                        })
                        .collect()
                }
                1 => (*t.pick(&["$(touch CANARY)", "`touch CANARY`", "'; touch CANARY; '", "\"; touch CANARY; \"", "$(touch CANARY", "a\\", "\\", "\\'", "'\\''", "$HOME", "${PATH}", "~", "*", "-n", "--", "-e x", "a\\\nb", "!!", "$'x'", "\\\\", "#c", " ", ""])).to_string(),
                _ => {
                    let len = 1 + t.choice(8);
                    (0..len).map(|_| ALPHABET[t.choice(9)]).collect()
                }
            };
            let all = placements(&x);
            let k = t.choice(all.len() + 1);
            if k == all.len() {
                cases.extend(all);
            } else {
                cases.push(all[k].clone());
            }
        }
        self.run_cases(cases)
    }
    fn run_tape(&mut self, words: &[u32]) -> Outcome {
        self.run_tape_batch(words).into_iter().next().unwrap_or_else(|| Outcome::discard("empty", String::new()))
    }
    fn run_text(&mut self, text: &str) -> Outcome {
        let j: J = serde_json::from_str(text).expect("replay text is JSON");
        let c = subcase_from_json(&j).expect("sub-case encoding");
        self.run_cases(vec![c]).into_iter().next().unwrap()
    }
}
