//! C02 — operator chains group by the published precedence table, left to right.
//!
//! Oracle: an independent model of the table in reference/expressions.md.  A
//! flat chain is split at the right-most operator of the lowest level; a tree
//! is printed with exactly the parentheses that table requires (plus random
//! redundant ones) and must come back unchanged.

use crate::core::*;
use crate::norm;
use crate::tape::{fnv, Tape};

pub const OPS: [(&str, u32); 18] = [
    ("==", 1),
    ("!=", 1),
    (">=", 1),
    ("<=", 1),
    ("<", 1),
    (">", 1),
    ("~", 1),
    ("!~", 1),
    ("in", 2),
    ("is", 2),
    ("+", 3),
    ("-", 3),
    ("*", 4),
    ("/", 4),
    ("%%", 4),
    ("&&", 5),
    ("||", 5),
    (".", 6),
];

#[derive(Clone, Debug)]
enum T {
    /// leaf: (source text, expected normal form, is a bare number token)
    Leaf(String, String, bool),
    Bin(usize, Box<T>, Box<T>),
}

fn level(op: usize) -> u32 {
    OPS[op].1
}

/// Reference grouping of a flat chain.
fn group(operands: &[T], ops: &[usize]) -> T {
    if ops.is_empty() {
        return operands[0].clone();
    }
    let lowest = ops.iter().map(|o| level(*o)).min().unwrap();
    let split = ops.iter().rposition(|o| level(*o) == lowest).unwrap();
    let l = group(&operands[..=split], &ops[..split]);
    let r = group(&operands[split + 1..], &ops[split + 1..]);
    T::Bin(ops[split], Box::new(l), Box::new(r))
}

fn expected(t: &T) -> String {
    match t {
        T::Leaf(_, n, _) => n.clone(),
        T::Bin(op, l, r) => format!("({} {} {})", OPS[*op].0, expected(l), expected(r)),
    }
}

fn sym(name: &str) -> T {
    T::Leaf(name.to_string(), format!("(sym {:?})", name), false)
}

/// Print a tree with the parentheses the table requires; `extra` decides
/// redundant ones.
fn print(t: &T, tape: &mut Tape, redundant: bool) -> String {
    match t {
        T::Leaf(s, _, _) => {
            if redundant && tape.chance(1, 12) {
                format!("({})", s)
            } else {
                s.clone()
            }
        }
        T::Bin(op, l, r) => {
            let lv = level(*op);
            let ls = print(l, tape, redundant);
            let rs = print(r, tape, redundant);
            let lneed = matches!(**l, T::Bin(lop, _, _) if level(lop) < lv);
            let rneed = matches!(**r, T::Bin(rop, _, _) if level(rop) <= lv);
            let lwrap = lneed || (redundant && matches!(**l, T::Bin(..)) && tape.chance(1, 6));
            let rwrap = rneed || (redundant && matches!(**r, T::Bin(..)) && tape.chance(1, 6));
            let ls = if lwrap { format!("({})", ls) } else { ls };
            let rs = if rwrap { format!("({})", rs) } else { rs };
            let opname = OPS[*op].0;
            // `.` is also written tight, the usual spelling
            if opname == "." && tape.chance(1, 2) && !ls.ends_with(|c: char| c.is_ascii_digit()) {
                format!("{}.{}", ls, rs)
            } else {
                format!("{} {} {}", ls, opname, rs)
            }
        }
    }
}

fn count_ops(t: &T) -> usize {
    match t {
        T::Leaf(..) => 0,
        T::Bin(_, l, r) => 1 + count_ops(l) + count_ops(r),
    }
}

pub struct C02 {
    tier: Tier,
    /// set when a nested operand contains a numeric `.` numeric (case is discarded)
    taint: std::cell::Cell<bool>,
}

impl C02 {
    pub fn new(tier: Tier) -> Self {
        C02 { tier, taint: std::cell::Cell::new(false) }
    }

    fn gen_leaf(&self, tape: &mut Tape, depth: u32) -> T {
        let names = ["a", "b", "c", "d", "e", "foo", "x1", "a_b", "t-u"];
        let k = if depth == 0 {
            tape.weighted(&[6, 1, 1, 0, 0, 0, 0, 0, 0])
        } else {
            tape.weighted(&[8, 2, 2, 1, 2, 2, 2, 2, 1])
        };
        match k {
            0 => sym(names[tape.choice(names.len())]),
            1 => {
                let v = tape.range(0, 12);
                T::Leaf(format!("{}", v), format!("(int {})", v), true)
            }
            2 => {
                let s = *tape.pick(&["", "s", "int", "a b", "1"]);
                T::Leaf(format!("{:?}", s), format!("(str {:?})", s), false)
            }
            3 => {
                let f = *tape.pick(&[1.5f64, 0.25, 2.0]);
                T::Leaf(
                    format!("{:?}", f),
                    format!("(float {:016x})", f.to_bits()),
                    true,
                )
            }
            4 => {
                // call f(arg, …)
                let n = tape.choice(3);
                let mut src = String::from("f(");
                let mut nf = String::from("(call (sym \"f\")");
                for i in 0..n {
                    let a = self.gen_tree(tape, depth - 1, 2);
                    if i > 0 {
                        src.push_str(", ");
                    }
                    src.push_str(&print(&a, tape, true));
                    nf.push(' ');
                    nf.push_str(&expected(&a));
                }
                src.push(')');
                nf.push(')');
                T::Leaf(src, nf, false)
            }
            5 => {
                let n = tape.choice(3);
                let mut src = String::from("[");
                let mut nf = String::from("(list");
                for i in 0..n {
                    let a = self.gen_tree(tape, depth - 1, 2);
                    if i > 0 {
                        src.push_str(", ");
                    }
                    src.push_str(&print(&a, tape, true));
                    nf.push(' ');
                    nf.push_str(&expected(&a));
                }
                src.push(']');
                nf.push(')');
                T::Leaf(src, nf, false)
            }
            6 => {
                let a = self.gen_tree(tape, depth - 1, 2);
                T::Leaf(
                    format!("{{k = {}}}", print(&a, tape, true)),
                    format!("(tuple (field \"k\" {}))", expected(&a)),
                    false,
                )
            }
            7 => {
                // parenthesised prefix form: swallows its whole tail, so it is an atom only in parentheses
                let a = self.gen_tree(tape, depth - 1, 3);
                let (kw, nm) = *tape.pick(&[("not", "not"), ("fail", "fail"), ("TRACE", "trace")]);
                T::Leaf(
                    format!("({} {})", kw, print(&a, tape, true)),
                    format!("({} {})", nm, expected(&a)),
                    false,
                )
            }
            _ => {
                let a = self.gen_tree(tape, depth - 1, 2);
                T::Leaf(
                    format!("t{{k = {}}}", print(&a, tape, true)),
                    format!("(copy (sym \"t\") (field \"k\" {}))", expected(&a)),
                    false,
                )
            }
        }
    }

    /// Random tree with at most `max_ops` operators.
    fn gen_tree(&self, tape: &mut Tape, depth: u32, max_ops: usize) -> T {
        let n = tape.choice(max_ops + 1);
        let t = self.gen_tree_n(tape, depth, n);
        if numeric_dot_tree(&t) {
            self.taint.set(true);
        }
        t
    }

    fn gen_tree_n(&self, tape: &mut Tape, depth: u32, n: usize) -> T {
        if n == 0 {
            return self.gen_leaf(tape, depth);
        }
        let op = tape.choice(18);
        let left = tape.choice(n);
        let l = self.gen_tree_n(tape, depth, left);
        let r = self.gen_tree_n(tape, depth, n - 1 - left);
        T::Bin(op, Box::new(l), Box::new(r))
    }

    fn check(&self, src: &str, want: &str, nops: usize, label: &str, numeric_dot: bool) -> Outcome {
        let text = format!("{};", src);
        let mut o = Outcome::pass(text.clone());
        o.key = fnv(text.as_bytes());
        o.nontrivial = nops >= 2;
        o.class(label);
        // guard: DIGIT . DIGIT is a float literal by the lexical grammar (C11's business)
        if numeric_dot {
            o.verdict = Verdict::Discard("digit-dot-digit".into());
            return o;
        }
        match norm::parse_program(&text) {
            Err(e) => o.fail("C02/parse-error", format!("chain does not parse: {}\n{}", text, e)),
            Ok(stmts) => {
                if stmts.len() != 1 {
                    o.fail(
                        "C02/statement-count",
                        format!("{} statements from one chain: {}", stmts.len(), text),
                    );
                    return o;
                }
                let got = norm::norm_program(&stmts, true).remove(0);
                let want = format!("(expr {})", want);
                if got != want {
                    o.fail(
                        "C02/grouping",
                        format!("source: {}\nexpected: {}\nparsed:   {}", text, want, got),
                    );
                }
            }
        }
        o
    }
}

fn edge_numeric(t: &T, right_edge: bool) -> bool {
    match t {
        T::Leaf(_, _, n) => *n,
        T::Bin(_, l, r) => edge_numeric(if right_edge { r } else { l }, right_edge),
    }
}

/// some `.` has a bare number on both sides (conservative: ignores parentheses)
fn numeric_dot_tree(t: &T) -> bool {
    match t {
        T::Leaf(..) => false,
        T::Bin(op, l, r) => {
            (OPS[*op].0 == "." && edge_numeric(l, true) && edge_numeric(r, false))
                || numeric_dot_tree(l)
                || numeric_dot_tree(r)
        }
    }
}

const N1: u64 = 18;
const N2: u64 = 18 * 18;
const N3: u64 = 18 * 18 * 18;
const N4: u64 = 18 * 18 * 18 * 18;

impl Property for C02 {
    fn id(&self) -> &'static str {
        "C02"
    }
    fn rule(&self) -> String {
        "enumerated: every sequence of 1..4 of the 18 binary operators between symbols a..e (111,150 chains, exhaustive), expected tree = split at the right-most operator of the lowest level of the published table; generated: random trees of up to 10 operators over compound operands (ints, strings, floats, calls, lists, tuples, copies, parenthesised not/fail/TRACE) printed with exactly the parentheses the table requires plus random redundant ones, the parse must return the intended tree. Non-trivial: >= 2 operators (two levels or left-grouping visible); distinct by source text.".into()
    }
    fn assumptions(&self) -> Vec<String> {
        vec![
            "the precedence table in docsite/site/content/reference/expressions.md is the specification".into(),
            "operand texts never form DIGIT '.' DIGIT (a float literal by the lexical grammar; such cases are discarded and counted)".into(),
        ]
    }
    fn budget(&self, tier: Tier) -> Budget {
        Budget {
            cases: match tier {
                Tier::Quick => 20_000,
                Tier::Thorough => 500_000,
            },
            tape_min: 4,
            tape_max: 120,
        }
    }
    fn fixed_count(&mut self, _tier: Tier) -> u64 {
        N1 + N2 + N3 + N4
    }
    fn fixed_exhaustive(&self) -> bool {
        true
    }
    fn run_fixed(&mut self, index: u64) -> Outcome {
        let (len, mut code) = if index < N1 {
            (1, index)
        } else if index < N1 + N2 {
            (2, index - N1)
        } else if index < N1 + N2 + N3 {
            (3, index - N1 - N2)
        } else {
            (4, index - N1 - N2 - N3)
        };
        let mut ops = vec![];
        for _ in 0..len {
            ops.push((code % 18) as usize);
            code /= 18;
        }
        let names = ["a", "b", "c", "d", "e"];
        let operands: Vec<T> = names[..=len].iter().map(|n| sym(n)).collect();
        let mut src = String::from(names[0]);
        for (i, op) in ops.iter().enumerate() {
            src.push_str(&format!(" {} {}", OPS[*op].0, names[i + 1]));
        }
        let want = expected(&group(&operands, &ops));
        self.check(&src, &want, len, "enumerated", false)
    }
    fn run_tape(&mut self, words: &[u32]) -> Outcome {
        let mut tape = Tape::new(words);
        self.taint.set(false);
        let max_ops = match self.tier {
            Tier::Quick => 10,
            Tier::Thorough => 10,
        };
        if tape.chance(1, 12) {
            // a long run of operators of one level (40..160 of them) between plain names
            let level = 1 + tape.choice(5) as u32;
            let same: Vec<usize> = (0..OPS.len()).filter(|i| OPS[*i].1 == level && OPS[*i].0 != "~" && OPS[*i].0 != "!~").collect();
            let n = 40 + tape.choice(121);
            let ops: Vec<usize> = (0..n).map(|_| same[tape.choice(same.len())]).collect();
            let plain: Vec<T> = (0..=n).map(|i| sym(&format!("v{}", i))).collect();
            let mut src = String::new();
            for i in 0..=n {
                if i > 0 {
                    src.push_str(&format!(" {} ", OPS[ops[i - 1]].0));
                }
                src.push_str(&format!("v{}", i));
            }
            let want = expected(&group(&plain, &ops));
            return self.check(&src, &want, n, "long-run-of-one-level", false);
        }
        let mode = tape.choice(3);
        if mode == 0 {
            // flat chain with compound operands, reference = split model
            let n = 1 + tape.choice(max_ops);
            let ops: Vec<usize> = (0..n).map(|_| tape.choice(18)).collect();
            let operands: Vec<T> = (0..=n).map(|_| self.gen_leaf(&mut tape, 2)).collect();
            let mut src = String::new();
            for i in 0..=n {
                if i > 0 {
                    src.push_str(&format!(" {} ", OPS[ops[i - 1]].0));
                }
                if let T::Leaf(s, _, _) = &operands[i] {
                    src.push_str(s);
                }
            }
            let want = expected(&group(&operands, &ops));
            let nd = (0..n).any(|i| {
                OPS[ops[i]].0 == "."
                    && matches!(operands[i], T::Leaf(_, _, true))
                    && matches!(operands[i + 1], T::Leaf(_, _, true))
            });
            let mut o = self.check(&src, &want, n, "flat-compound", nd || self.taint.get());
            // metamorphic: the same operators between plain symbols give the same shape
            if !o.is_fail() && !matches!(o.verdict, Verdict::Discard(_)) {
                let plain: Vec<T> = (0..=n).map(|i| sym(&format!("v{}", i))).collect();
                let mut src2 = String::new();
                for i in 0..=n {
                    if i > 0 {
                        src2.push_str(&format!(" {} ", OPS[ops[i - 1]].0));
                    }
                    src2.push_str(&format!("v{}", i));
                }
                let want2 = expected(&group(&plain, &ops));
                let o2 = self.check(&src2, &want2, n, "flat-plain", false);
                if let Verdict::Fail { sig, msg } = o2.verdict {
                    o.fail(&sig, msg);
                }
            }
            o
        } else {
            // intended tree first, printed with required (+ redundant) parentheses
            let t = self.gen_tree(&mut tape, 2, max_ops);
            let src = print(&t, &mut tape, mode == 2);
            let want = expected(&t);
            self.check(
                &src,
                &want,
                count_ops(&t),
                if mode == 2 { "tree-redundant-parens" } else { "tree-minimal-parens" },
                numeric_dot_tree(&t) || self.taint.get(),
            )
        }
    }
}
