//! C04 — no input makes the compiler crash or hang.
//!
//! Oracle: validity predicate — every stage (tokenize, parse, type check,
//! translate, evaluate, convert, format) ends in Ok/Err; no panic, no abort
//! (the case runs in a supervised worker), and the deterministic work counter
//! of the `ucg_verif` hook stays below a generous polynomial bound.

use crate::cli;
use crate::core::*;
use crate::reflex::{self, Kind};
use crate::tape::{fnv, Tape};
use crate::ucgrun::Ucg;
use std::path::PathBuf;
use std::rc::Rc;
use ucglib::ast::walk::Walker;
use ucglib::iter::OffsetStrIter;

pub fn set_limit(n: u64) {
    #[cfg(ucg_verif)]
    ucglib::verif::reset(n);
    let _ = n;
}

pub fn ticks() -> u64 {
    #[cfg(ucg_verif)]
    return ucglib::verif::count();
    #[allow(unreachable_code)]
    0
}

pub const WORK_LIMIT_MSG: &str = "ucg_verif: work limit exceeded";

pub struct C04 {
    tier: Tier,
    ucg: Ucg,
    corpus: Vec<PathBuf>,
    vocab: Vec<String>,
    cli_home: PathBuf,
}

/// max bracket nesting of a text, by the reference lexer (None if it cannot be lexed)
pub fn nesting_of(text: &str) -> Option<usize> {
    let toks = reflex::lex(text).ok()?;
    let mut d = 0usize;
    let mut m = 0usize;
    for t in toks {
        if t.kind == Kind::Punct {
            match t.src.as_str() {
                "(" | "[" | "{" => {
                    d += 1;
                    m = m.max(d);
                }
                ")" | "]" | "}" => d = d.saturating_sub(1),
                _ => {}
            }
        }
    }
    Some(m)
}

/// crude nesting bound for texts the reference lexer rejects
fn raw_nesting(text: &str) -> usize {
    let mut d = 0usize;
    let mut m = 0usize;
    for b in text.bytes() {
        match b {
            b'(' | b'[' | b'{' => {
                d += 1;
                m = m.max(d);
            }
            b')' | b']' | b'}' => d = d.saturating_sub(1),
            _ => {}
        }
    }
    m
}

#[derive(Default)]
pub struct StageReport {
    pub reached: Vec<&'static str>,
    pub failure: Option<(String, String)>, // (sig, msg)
}

fn stage<F: FnOnce() -> R + std::panic::UnwindSafe, R>(
    name: &'static str,
    limit: u64,
    rep: &mut StageReport,
    text: &str,
    f: F,
) -> Option<R> {
    if rep.failure.is_some() {
        return None;
    }
    set_limit(limit);
    let r = catch(f);
    let used = ticks();
    set_limit(u64::MAX);
    match r {
        Ok(v) => Some(v),
        Err(pi) => {
            if pi.msg.starts_with(WORK_LIMIT_MSG) {
                let site = pi.msg.rsplit(' ').next().unwrap_or("?").to_string();
                if site == "runtime::range" && has_big_number(text) {
                    // a range longer than 10^6 elements: excluded by the property's statement
                    rep.failure = Some(("C04/excluded-long-range".into(), String::new()));
                    return None;
                }
                rep.failure = Some((
                    format!("C04/work-limit:{}:{}", name, site),
                    format!(
                        "stage {} exceeded its work bound ({} ticks at {}) — practical non-termination — on a {}-byte input:\n{}",
                        name, limit, site, text.len(), clip(text)
                    ),
                ));
            } else {
                rep.failure = Some((
                    format!("C04/{}", pi.sig()),
                    format!("stage {} panicked: {} at {} (after {} ticks)\ninput:\n{}", name, pi.msg, pi.loc, used, clip(text)),
                ));
            }
            None
        }
    }
}

/// an integer literal of >= 7 digits or a multiplication: the text can build a range beyond 10^6 elements
fn has_big_number(text: &str) -> bool {
    let mut run = 0;
    for b in text.bytes() {
        if b.is_ascii_digit() {
            run += 1;
            if run >= 7 {
                return true;
            }
        } else {
            run = 0;
        }
    }
    // a product, or a cast of a float (an infinity from a division by 0.0 saturates to i64::MIN / MAX)
    text.contains('*') || text.contains("int(")
}

fn clip(s: &str) -> String {
    if s.chars().count() > 1500 {
        format!("{}…[{} bytes]", s.chars().take(1500).collect::<String>(), s.len())
    } else {
        s.to_string()
    }
}

impl C04 {
    pub fn new(tier: Tier) -> Self {
        let mut corpus = vec![];
        for dir in [
            "/repo/integration_tests",
            "/repo/std",
            "/repo/examples",
            "/repo/example_errors",
            "/repo/fuzz/corpus",
        ] {
            for f in cli::list_files(std::path::Path::new(dir)) {
                let p = std::path::Path::new(dir).join(&f);
                let is_ucg = p.extension().and_then(|e| e.to_str()) == Some("ucg");
                if is_ucg || dir.ends_with("corpus") {
                    corpus.push(p);
                }
            }
        }
        corpus.sort();
        let mut vocab: Vec<String> = vec![];
        vocab.extend(reflex::PUNCT2.iter().map(|s| s.to_string()));
        vocab.extend(reflex::PUNCT1.iter().map(|s| s.to_string()));
        vocab.extend(reflex::KEYWORDS.iter().map(|s| s.to_string()));
        for w in [
            "true", "false", "NULL", "a", "b", "x", "foo", "item", "acc", "name", "env", "int", "str", "float", "bool",
            "json", "yaml", "toml", "xml", "flags", "exec", "env", "0", "1", "2", "10", "9223372036854775807",
            "\"\"", "\"s\"", "\"@\"", "\"@ @\"", "\"@{item}\"", "\"a.ucg\"", "\"std/lists.ucg\"", "1.5", "%",
        ] {
            vocab.push(w.to_string());
        }
        let cli_home = crate::ucgrun::new_scratch_dir("c04home");
        let ucg = Ucg::new();
        // data files that include expressions of generated programs can name
        for (name, bytes) in [
            ("empty.json", &b""[..]),
            ("empty.yaml", b""),
            ("empty.toml", b""),
            ("empty.txt", b""),
            ("blank.json", b" \n\t"),
            ("data.json", b"{\"a\": 1, \"b\": [1, 2.5, null, \"s\"]}"),
            ("bad.json", b"{\"a\": "),
            ("data.yaml", b"a: 1\nb: [1, 2]\n"),
            ("bad.yaml", b"a: [1, 2\n b: {"),
            ("data.toml", b"a = 1\n[t]\nb = \"s\"\n"),
            ("bad.toml", b"a = = 1"),
            ("bin.dat", b"\xff\xfe\x00\x80 not utf-8"),
        ] {
            let _ = std::fs::write(ucg.scratch.join(name), bytes);
        }
        C04 {
            tier,
            ucg,
            corpus,
            vocab,
            cli_home,
        }
    }

    /// Run every stage on `text`.
    pub fn pipeline(&mut self, text: &str, o: &mut Outcome) {
        let mut rep = StageReport::default();
        let ntok_bound = (text.len() as u64) + 2;
        // 1. tokenize
        let toks = stage("tokenize", 4 * ntok_bound + 64, &mut rep, text, || {
            ucglib::tokenizer::tokenize(OffsetStrIter::new(text), None)
        });
        let ntok = match &toks {
            Some(Ok(t)) => {
                o.class("tokenizes");
                t.len() as u64
            }
            _ => 0,
        };
        // polynomial parser budget: every expression entry is one tick
        let parse_limit = 20_000 + 60 * ntok * ntok.max(16);
        if matches!(toks, Some(Ok(_))) {
            // 2. parse without and with a comment map
            let parsed = stage("parse", parse_limit + 4 * ntok_bound + 64, &mut rep, text, || {
                ucglib::parse::parse(OffsetStrIter::new(text), None)
            });
            let mut cmap = std::collections::BTreeMap::new();
            let parsed_c = stage("parse+comments", parse_limit + 4 * ntok_bound + 64, &mut rep, text, || {
                let mut m = std::collections::BTreeMap::new();
                let r = ucglib::parse::parse(OffsetStrIter::new(text), Some(&mut m));
                (r, m)
            });
            if let Some((Ok(_), m)) = &parsed_c {
                cmap = m.clone();
            }
            if let Some(Ok(stmts)) = parsed {
                o.class("parses");
                if ntok >= 3 {
                    o.nontrivial = true;
                }
                // 3. type check
                let root = self.ucg.scratch.clone();
                let mut s2 = stmts.clone();
                let checked = stage("typecheck", 5_000_000, &mut rep, text, std::panic::AssertUnwindSafe(|| {
                    let mut checker = ucglib::ast::typecheck::Checker::new().with_working_dir(root.clone());
                    checker.walk_statement_list(s2.iter_mut().collect());
                    checker.result().is_ok()
                }));
                if checked == Some(true) {
                    o.class("type-checks");
                }
                // 4. translate
                let s3 = stmts.clone();
                let root2 = self.ucg.scratch.clone();
                stage("translate", 5_000_000, &mut rep, text, std::panic::AssertUnwindSafe(|| {
                    let _ = ucglib::build::opcode::translate::AST::translate(s3, &root2);
                }));
                // 5. format
                let s4 = stmts.clone();
                stage("format", 5_000_000, &mut rep, text, std::panic::AssertUnwindSafe(|| {
                    let mut buf: Vec<u8> = vec![];
                    let mut p = ucglib::ast::printer::AstPrinter::new(4, &mut buf).with_comment_map(&cmap);
                    let _ = p.render(&s4);
                    let mut buf2: Vec<u8> = vec![];
                    let mut p2 = ucglib::ast::printer::AstPrinter::new(2, &mut buf2);
                    let _ = p2.render(&s4);
                }));
                // 6. evaluate, strict and not
                for strict in [true, false] {
                    if rep.failure.is_some() {
                        break;
                    }
                    self.ucg.reset();
                    let ucg = &self.ucg;
                    let r = stage(
                        if strict { "evaluate-strict" } else { "evaluate-nonstrict" },
                        parse_limit + 30_000_000,
                        &mut rep,
                        text,
                        std::panic::AssertUnwindSafe(|| ucg.eval_validate(text, strict)),
                    );
                    match r {
                        None => self.ucg.poison(),
                        Some(Ok(val)) => {
                            if strict {
                                o.class("evaluates");
                                // 7. convert the result with every converter
                                let names = ["json", "yaml", "yamlmulti", "toml", "xml", "env", "flags", "exec"];
                                for n in names {
                                    let v: Rc<ucglib::build::Val> = val.clone();
                                    let env = self.ucg.env();
                                    stage("convert", 5_000_000, &mut rep, text, std::panic::AssertUnwindSafe(|| {
                                        let e = env.borrow();
                                        if let Some(c) = e.converter_registry.get_converter(n) {
                                            let mut buf: Vec<u8> = vec![];
                                            let _ = c.convert(v, &mut buf);
                                        }
                                    }));
                                }
                                if rep.failure.is_some() {
                                    self.ucg.poison();
                                }
                            }
                        }
                        Some(Err(_)) => {}
                    }
                }
            }
        }
        if let Some((sig, msg)) = rep.failure {
            if sig == "C04/excluded-long-range" {
                o.class("excluded-long-range");
                self.ucg.poison();
            } else {
                o.fail(&sig, msg);
            }
        }
    }

    /// The real binary on a file: exit status 0 or 1, a message when 1.
    fn cli_sample(&mut self, text: &str, o: &mut Outcome) {
        let dir = crate::ucgrun::new_scratch_dir("c04cli");
        let f = dir.join("input_test.ucg");
        if std::fs::write(&f, text).is_err() {
            return;
        }
        o.class("cli-sample");
        for sub in ["build", "fmt", "test"] {
            let cmd = cli::Cmd {
                args: vec![sub.to_string(), "input_test.ucg".to_string()],
                cwd: &dir,
                env: vec![],
                home: &self.cli_home,
                timeout: std::time::Duration::from_secs(60),
                stdin: None,
            };
            let mut r = cli::run_ucg(&cmd);
            if r.timed_out {
                // reproduction protocol: alone, twice more
                let r2 = cli::run_ucg(&cmd);
                let r3 = cli::run_ucg(&cmd);
                if r2.timed_out && r3.timed_out {
                    o.fail(
                        &format!("C04/cli-hang:{}", sub),
                        format!("`ucg {}` did not finish within 60 s three times in a row on:\n{}", sub, clip(text)),
                    );
                    break;
                }
                r = r3;
                if r.timed_out {
                    continue;
                }
            }
            match (r.code, r.signal) {
                (Some(0), _) => {}
                (Some(1), _) => {
                    if r.stderr.trim().is_empty() && r.stdout.trim().is_empty() {
                        o.fail(
                            &format!("C04/cli-silent-failure:{}", sub),
                            format!("`ucg {}` exits 1 without any message on:\n{}", sub, clip(text)),
                        );
                    }
                }
                _ => {
                    let first = r.stderr.lines().find(|l| l.contains("panicked")).unwrap_or("").to_string();
                    let first: String = first.chars().map(|c| if c.is_ascii_digit() { '#' } else { c }).collect();
                    o.fail(
                        &format!("C04/cli-crash:{}:{}", sub, first.split_whitespace().collect::<Vec<_>>().join("_")),
                        format!("`ucg {}` ended with {} (expected exit 0 or 1)\nstderr: {}\ninput:\n{}", sub, r.describe(), clip(&r.stderr), clip(text)),
                    );
                }
            }
            if o.is_fail() {
                break;
            }
        }
        let _ = std::fs::remove_dir_all(&dir);
    }

    fn read_corpus(&self, i: usize) -> Option<String> {
        let bytes = std::fs::read(&self.corpus[i]).ok()?;
        // the library takes &str: undecodable bytes become U+FFFD, long files are cut at 16 KiB
        let mut s = String::from_utf8_lossy(&bytes).into_owned();
        if s.len() > 16384 {
            let mut cut = 16384;
            while !s.is_char_boundary(cut) {
                cut -= 1;
            }
            s.truncate(cut);
        }
        Some(s)
    }

    /// A valid generated program laid out with whitespace, newlines and comments between any
    /// two tokens: the shapes the formatter's comment handling has to survive.
    pub fn gen_commented(&self, t: &mut Tape) -> String {
        use crate::props::c05::{decorate, layout, Layout};
        let mut cfg = crate::proggen::GenCfg::quick();
        cfg.max_depth = 4;
        cfg.max_stmts = 5;
        cfg.wrong_permille = 30;
        cfg.literal_variety = true;
        let prog = {
            let mut g = crate::proggen::Gen::new(t, cfg);
            g.program()
        };
        let src = crate::prog::Renderer::program(&prog);
        let toks: Vec<String> = match reflex::lex(&src) {
            Ok(ts) => ts.into_iter().filter(|t| t.kind != Kind::Comment).map(|t| t.src).collect(),
            Err(_) => return src,
        };
        let toks = decorate(toks, t);
        layout(&toks, t, Layout::Wild)
    }

    pub fn gen_soup(&self, t: &mut Tape) -> String {
        let n = 1 + t.choice(60);
        let mut s = String::new();
        for _ in 0..n {
            match t.weighted(&[12, 2, 2, 1]) {
                0 => s.push_str(&self.vocab[t.choice(self.vocab.len())]),
                1 => s.push(crate::gval::gen_char(t)),
                2 => s.push_str(&format!("{}", t.range(0, 100000))),
                _ => {
                    let st = crate::gval::gen_string(t);
                    s.push_str(&reflex::quote(&st));
                }
            }
            match t.weighted(&[6, 2, 1, 1]) {
                0 => s.push(' '),
                1 => {}
                2 => s.push('\n'),
                _ => s.push_str(" // c\n"),
            }
        }
        s
    }

    pub fn gen_statementish(&self, t: &mut Tape) -> String {
        // token soup shaped like statements: far more of it reaches the parser's deeper rules
        let n = 1 + t.choice(6);
        let mut s = String::new();
        for _ in 0..n {
            let head = *t.pick(&["let x = ", "let y = ", "", "assert ", "out json ", "let f = func (a, b) => ", "let m = module {a = 1} => (r) { let r = ", "constraint c = "]);
            s.push_str(head);
            let k = 1 + t.choice(14);
            for _ in 0..k {
                s.push_str(&self.vocab[t.choice(self.vocab.len())]);
                s.push(' ');
            }
            if head.starts_with("let m") {
                s.push_str("; }");
            }
            s.push_str(";\n");
        }
        s
    }

    pub fn gen_mutation(&self, t: &mut Tape) -> Option<String> {
        if self.corpus.is_empty() {
            return None;
        }
        let text = self.read_corpus(t.choice(self.corpus.len()))?;
        let toks = reflex::lex(&text).ok()?;
        let mut srcs: Vec<String> = toks.into_iter().filter(|t| t.kind != Kind::Comment).map(|t| t.src).collect();
        if srcs.is_empty() {
            return None;
        }
        // a window of the file keeps cases small and parse time low
        if srcs.len() > 200 {
            let start = t.choice(srcs.len() - 200);
            // align to a statement start when possible
            let s = (start..start + 60).find(|i| *i == 0 || srcs[i - 1] == ";").unwrap_or(start);
            srcs = srcs[s..(s + 200).min(srcs.len())].to_vec();
        }
        let k = 1 + t.choice(3);
        for _ in 0..k {
            if srcs.is_empty() {
                break;
            }
            let i = t.choice(srcs.len());
            match t.choice(4) {
                0 => {
                    srcs.remove(i);
                }
                1 => {
                    let c = srcs[i].clone();
                    srcs.insert(i, c);
                }
                2 => {
                    let j = t.choice(srcs.len());
                    srcs.swap(i, j);
                }
                _ => {
                    srcs[i] = self.vocab[t.choice(self.vocab.len())].clone();
                }
            }
        }
        Some(srcs.join(" "))
    }

    pub fn gen_edge(&self, t: &mut Tape) -> String {
        const INTS: [&str; 12] = [
            "0", "1", "2", "(0 - 1)", "9223372036854775807", "(0 - 9223372036854775807)", "(0 - 9223372036854775807 - 1)",
            "9223372036854775806", "4611686018427387904", "3037000500", "(0 - 3037000500)", "7",
        ];
        const FLOATS: [&str; 8] = ["0.0", "1.0", "0.5", "(0.0 - 1.0)", "179769313486231570000000000000000000000000000000000000000000000000000000000000000000000000000000000000000000000000000000000000000000000000000000000000000000000000000000000000000000000000000000000000000000000000000000000000000000000000000000000000000000000000000000000000000000000000000000000000000000000000.0", "0.000000000000000000000000000001", "2.5", "(0.0 / 0.0)"];
        const OPS: [&str; 18] = ["+", "-", "*", "/", "%%", "==", "!=", "<", ">", "<=", ">=", "&&", "||", "in", "is", "~", "!~", "."];
        const OTHERS: [&str; 12] = ["\"\"", "\"a\"", "\"1\"", "NULL", "true", "[]", "[1]", "{}", "{a = 1}", "[1, \"a\"]", "(func (x) => x)", "(module {} => {})"];
        let mut operand = |t: &mut Tape| -> String {
            match t.weighted(&[6, 3, 3]) {
                0 => (*t.pick(&INTS)).to_string(),
                1 => (*t.pick(&FLOATS)).to_string(),
                _ => (*t.pick(&OTHERS)).to_string(),
            }
        };
        let n = 1 + t.choice(4);
        let mut s = String::new();
        for i in 0..n {
            let a = operand(t);
            let b = operand(t);
            let c = operand(t);
            let stmt = match t.weighted(&[8, 4, 4, 3, 3, 2, 2, 2, 2, 3, 2]) {
                9 => format!(
                    "let v{} = include {} \"{}\";",
                    i,
                    t.pick(&["str", "b64", "b64urlsafe", "json", "yaml", "toml", "bogus", "xml"]),
                    t.pick(&["empty.json", "empty.yaml", "empty.toml", "empty.txt", "blank.json", "data.json", "bad.json", "data.yaml", "bad.yaml", "data.toml", "bad.toml", "bin.dat", "missing.json", ".", ""])
                ),
                0 => format!("let v{} = {} {} {};", i, a, t.pick(&OPS), b),
                1 => format!("let v{} = {} {} {} {} {};", i, a, t.pick(&OPS), b, t.pick(&OPS), c),
                2 => {
                    // ranges near the limits, never longer than 10^6 elements (the property excludes those)
                    const STARTS: [i128; 10] = [0, 1, -1, 7, 9223372036854775807, 9223372036854775806, -9223372036854775808, -9223372036854775807, 4611686018427387904, 9223372036854775000];
                    const STEPS: [i128; 8] = [1, 2, 0, -1, 3, 4611686018427387904, 9223372036854775807, 1000];
                    let start = *t.pick(&STARTS);
                    let step = *t.pick(&STEPS);
                    let len = *t.pick(&[0i128, 1, 2, 5, 1000]);
                    let mut end = start + len * step.max(1) + t.range(-1, 1) as i128;
                    if end > i64::MAX as i128 {
                        end = i64::MAX as i128;
                    }
                    if end < i64::MIN as i128 {
                        end = i64::MIN as i128;
                    }
                    let lit = |v: i128| -> String {
                        if v >= 0 {
                            format!("{}", v)
                        } else if v == i64::MIN as i128 {
                            "(0 - 9223372036854775807 - 1)".to_string()
                        } else {
                            format!("(0 - {})", -v)
                        }
                    };
                    if t.chance(1, 2) && step == 1 {
                        format!("let v{} = {}:{};", i, lit(start), lit(end))
                    } else {
                        format!("let v{} = {}:{}:{};", i, lit(start), lit(step), lit(end))
                    }
                }
                3 => {
                    // format templates and argument counts
                    let tmpl = *t.pick(&["", "@", "@ @", "@ @ @", "\\\\@", "x", "@{item}", "@{item.a}", "@{", "@{}", "@{item", "@@", "\\\\", "@{1 / 0}", "@{item + 1}"]);
                    let args = *t.pick(&["()", "(1)", "(1, 2)", "(1, 2, 3)", "1", "(1, 2, 3, 4)", "{a = 1}", "[1]", "NULL", "(NULL)", "(1, )"]);
                    format!("let v{} = \"{}\" % {};", i, tmpl, args)
                }
                4 => format!("let v{} = {}({});", i, t.pick(&["int", "float", "str", "bool"]), a),
                5 => format!("let v{} = {} ({}, {}) ;", i, t.pick(&["map", "filter"]), t.pick(&["func (x) => x", "func () => 1", "func (a, b) => a", "func (a, b, c) => a", "1", "NULL"]), t.pick(&["[1, 2]", "{a = 1}", "\"ab\"", "1", "NULL", "[]"])),
                6 => format!("let v{} = reduce({}, {}, {});", i, t.pick(&["func (acc, x) => acc + x", "func (a) => a", "func (a, b, c) => a", "func (a, b, c, d) => a", "1"]), a, t.pick(&["[1, 2]", "{a = 1}", "\"ab\"", "1", "NULL"])),
                7 => format!("let v{} = select ({}, {}) => {{ a = 1, true = 2 }};", i, a, b),
                10 => {
                    // functions as select arms / list items, parameter names repeated or not
                    let f = |t: &mut Tape| (*t.pick(&["func (x, x) => x", "func (x, y) => x", "func (y) => y", "func () => 1", "func (x, x, x) => x", "func (a, b) => a + b", "func (x) => func (x) => x"])).to_string();
                    let (f1, f2, f3) = (f(t), f(t), f(t));
                    match t.choice(3) {
                        0 => format!("let v{} = select (\"a\", {}) => {{ a = {}, b = {} }};", i, f1, f2, f3),
                        1 => format!("let v{} = [{}, {}, {}];", i, f1, f2, f3),
                        _ => format!("let v{i} = select ({c}, {}) => {{ true = {}, false = {} }};\nlet r{i} = v{i}(1, 2);", f1, f2, f3, i = i, c = a),
                    }
                }
                _ => format!("let v{} = {}.{};", i, t.pick(&["[1, 2]", "{a = 1}", "\"s\"", "1", "NULL", "[[1]]"]), t.pick(&["0", "1", "5", "a", "b", "\"a\"", "(0 - 1)", "(1)", "9223372036854775807", "0.0", "(0 - 1).0"])),
            };
            s.push_str(&stmt);
            s.push('\n');
        }
        s
    }

    /// Constraint definitions — plain, recursive (directly, through lists, tuples and
    /// alternations, mutually) and ill-founded — applied to values nested 0..14 deep that
    /// conform, or fail to conform near the bottom.
    pub fn gen_constraints(&self, t: &mut Tape) -> String {
        const NAMES: [&str; 3] = ["ca", "cb", "cc"];
        let mut s = String::new();
        let ndefs = 1 + t.choice(3);
        for i in 0..ndefs {
            let me = NAMES[i];
            let narms = 1 + t.choice(3);
            let mut arms: Vec<String> = vec![];
            for _ in 0..narms {
                let r = NAMES[t.choice(ndefs)];
                arms.push(match t.weighted(&[3, 2, 2, 3, 3, 2, 2, 1, 1]) {
                    0 => (*t.pick(&["1", "\"\"", "1.0", "true", "NULL", "[]", "{}"])).to_string(),
                    1 => (*t.pick(&["in 1..10", "in 0..", "in ..5", "in 0.5..1.5", "in 5..1"])).to_string(),
                    2 => r.to_string(),
                    3 => format!("[{}]", r),
                    4 => format!("{{v = 1, kids = [{}]}}", r),
                    5 => format!("{{v = 1, next = {}}}", r),
                    6 => format!("[{}, 1]", r),
                    7 => format!("{{a = {}, b = {}}}", me, r),
                    _ => format!("[[{}]]", me),
                });
            }
            s.push_str(&format!("constraint {} = {};\n", me, arms.join(" | ")));
        }
        if t.chance(1, 4) {
            // an exemplar and a value nested equally deep (up to 40 levels) that agree, or
            // disagree only at the bottom
            let depth = 1 + t.choice(40);
            let (mut e, mut v) = ("1".to_string(), (*t.pick(&["2", "\"s\"", "1.5", "[]"])).to_string());
            for k in 0..depth {
                match (t.choice(3), k % 2) {
                    (0, _) => {
                        e = format!("{{a = {}}}", e);
                        v = format!("{{a = {}}}", v);
                    }
                    (1, _) => {
                        e = format!("{{a = {}, b = 0}}", e);
                        v = format!("{{b = 1, a = {}}}", v);
                    }
                    _ => {
                        e = format!("[{}]", e);
                        v = format!("[{}]", v);
                    }
                }
            }
            s.push_str(&format!("let deep :: {} = {};\n", e, v));
        }
        for i in 0..1 + t.choice(3) {
            let c = NAMES[t.choice(ndefs)];
            let depth = t.choice(15);
            let leaf = *t.pick(&["1", "\"s\"", "[]", "{v = 1, kids = []}", "NULL", "2.5", "{v = \"wrong\", kids = []}"]);
            let mut v = leaf.to_string();
            for _ in 0..depth {
                v = match t.choice(4) {
                    0 => format!("[{}]", v),
                    1 => format!("{{v = 1, kids = [{}]}}", v),
                    2 => format!("{{v = 1, next = {}}}", v),
                    _ => format!("[{}, 1]", v),
                };
            }
            match t.choice(3) {
                0 => s.push_str(&format!("let w{} :: {} = {};\n", i, c, v)),
                1 => s.push_str(&format!("let f{} = func (p :: {}) => p;\nlet w{} = f{}({});\n", i, c, i, i, v)),
                _ => s.push_str(&format!("let w{} = {{fld :: {} = {}}};\n", i, c, v)),
            }
        }
        s
    }

    pub fn gen_nesting(&self, t: &mut Tape, max_depth: usize) -> String {
        if t.chance(1, 5) {
            // functional operations nested in each other's callbacks, up to 31 deep (two AST
            // levels each: within the 64 levels the property allows)
            let d = 1 + t.choice(31);
            let mut e = "q".to_string();
            for k in 0..d {
                e = match (t.choice(3), k) {
                    (0, _) => format!("map(func (q) => {}, [q])", e),
                    (1, _) => format!("filter(func (q) => {} != NULL, [q])", e),
                    _ => format!("reduce(func (acc, q) => {}, q, [q])", e),
                };
            }
            return format!("let f = func (q) => {};\nlet r = f(1);", e);
        }
        let d = 1 + t.choice(max_depth);
        let mut open = String::new();
        let mut close = String::new();
        let uniform = t.chance(1, 2);
        let kind0 = t.choice(6);
        for _ in 0..d {
            let k = if uniform { kind0 } else { t.choice(6) };
            let (o, c) = match k {
                0 => ("(", ")"),
                1 => ("[", "]"),
                2 => ("{a = ", "}"),
                3 => ("[1, ", "]"),
                4 => ("(1 + ", ")"),
                _ => ("{a = 1, b = ", ",}"),
            };
            open.push_str(o);
            close.insert_str(0, c);
        }
        format!("let x = {}1{};", open, close)
    }
}

impl Property for C04 {
    fn id(&self) -> &'static str {
        "C04"
    }
    fn rule(&self) -> String {
        "enumerated: every .ucg file shipped in the repository and every file of fuzz/corpus, unmodified; generated: token soups over the full vocabulary with arbitrary Unicode characters, statement-shaped soups, 1-3 token mutations (delete/duplicate/swap/replace) of windows of those files, edge-arithmetic programs (zero divisors, i64 extremes, range limits, format placeholder/argument mismatches, casts and functional ops on wrong shapes, includes of empty / blank / malformed / binary / missing data files under every include type), bracket nesting 1..64, functional operations nested in each other's callbacks up to 31 deep, flat chains of 300..6000 binary operators (through the real binary only), valid generated programs with comments, newlines and CRLF between any two tokens, constraint programs (plain, recursive, mutually recursive and ill-founded definitions applied to values nested up to 14 deep); each input goes through tokenize, parse (with/without comments), type check, translate, format, evaluate (strict / non-strict), convert (8 converters) under catch_unwind in a supervised worker with a deterministic work bound; 1 in 40 also through the real binary (build, fmt, test). Non-trivial: the input parses and has >= 3 tokens; distinct by input text.".into()
    }
    fn assumptions(&self) -> Vec<String> {
        vec![
            "termination is decided by the work counter of the ucg_verif hook: a stage exceeding 20,000 + 60*tokens^2 parser entries or 30M VM steps counts as not terminating; wall clock is only a watchdog (exit 2)".into(),
            "excluded as the property states: nesting deeper than 64, module self-recursion, ranges longer than 10^6 elements".into(),
        ]
    }
    fn use_worker(&self) -> bool {
        true
    }
    fn budget(&self, tier: Tier) -> Budget {
        Budget {
            cases: match tier {
                Tier::Quick => 24_000,
                Tier::Thorough => 1_000_000,
            },
            tape_min: 4,
            tape_max: 260,
        }
    }
    fn fixed_count(&mut self, _tier: Tier) -> u64 {
        self.corpus.len() as u64
    }
    fn run_fixed(&mut self, index: u64) -> Outcome {
        let p = self.corpus[index as usize].clone();
        let text = match self.read_corpus(index as usize) {
            Some(t) => t,
            None => return Outcome::discard("corpus file not UTF-8 or too large", p.display().to_string()),
        };
        let mut o = Outcome::pass(format!("{}:\n{}", p.display(), clip(&text)));
        o.key = fnv(text.as_bytes());
        o.portable = Some(text.clone());
        o.class("shipped-file");
        if nesting_of(&text).unwrap_or_else(|| raw_nesting(&text)) > 64 {
            o.verdict = Verdict::Discard("nesting > 64".into());
            return o;
        }
        self.pipeline(&text, &mut o);
        o
    }
    fn run_text(&mut self, text: &str) -> Outcome {
        if let Some(rest) = text.strip_prefix("CLI-ONLY\n") {
            let mut o = Outcome::pass(clip(rest));
            o.key = fnv(rest.as_bytes());
            o.class("long-operator-chain");
            o.nontrivial = true;
            self.cli_sample(rest, &mut o);
            return o;
        }
        let mut o = Outcome::pass(clip(text));
        o.key = fnv(text.as_bytes());
        o.class("text-replay");
        self.pipeline(text, &mut o);
        // the binary has no work bound: an excluded long range would just run until the watchdog
        if !o.is_fail() && !o.classes.iter().any(|c| c == "excluded-long-range") {
            self.cli_sample(text, &mut o);
        }
        o
    }
    fn run_tape(&mut self, words: &[u32]) -> Outcome {
        let mut t = Tape::new(words);
        let max_nest = 64;
        if t.chance(1, 400) {
            // a flat chain of hundreds to thousands of binary operators: no nesting in the source,
            // a tree that deep for every recursive pass. The harness's own worker has an ordinary
            // stack, so these go to the real binary only.
            let n = *t.pick(&[300usize, 800, 1500, 3000, 6000]);
            let (op, leaf) = *t.pick(&[("+", "1"), ("-", "1"), ("+", "\"s\""), ("&&", "true"), ("==", "1"), ("*", "1")]);
            let text = format!("let x = {};\n", vec![leaf; n + 1].join(&format!(" {} ", op)));
            let mut o = Outcome::pass(clip(&text));
            o.key = fnv(text.as_bytes());
            o.portable = Some(format!("CLI-ONLY\n{}", text));
            o.class("long-operator-chain");
            o.nontrivial = true;
            self.cli_sample(&text, &mut o);
            return o;
        }
        let (label, text) = match t.weighted(&[3, 3, 5, 5, 2, 3, 3]) {
            5 => ("commented-program", self.gen_commented(&mut t)),
            6 => ("constraint-program", self.gen_constraints(&mut t)),
            0 => ("token-soup", self.gen_soup(&mut t)),
            1 => ("statement-soup", self.gen_statementish(&mut t)),
            2 => match self.gen_mutation(&mut t) {
                Some(s) => ("token-mutation", s),
                None => ("token-soup", self.gen_soup(&mut t)),
            },
            3 => ("edge-arithmetic", self.gen_edge(&mut t)),
            _ => ("nesting", self.gen_nesting(&mut t, max_nest)),
        };
        let mut o = Outcome::pass(clip(&text));
        o.key = fnv(text.as_bytes());
        o.portable = Some(text.clone());
        o.class(label);
        if text.len() > 4096 && label != "token-mutation" {
            o.verdict = Verdict::Discard("longer than 4 KiB".into());
            return o;
        }
        if nesting_of(&text).unwrap_or_else(|| raw_nesting(&text)) > 64 {
            o.verdict = Verdict::Discard("nesting > 64".into());
            return o;
        }
        self.pipeline(&text, &mut o);
        if !o.is_fail() && t.chance(1, 40) && !o.classes.iter().any(|c| c == "excluded-long-range") {
            self.cli_sample(&text, &mut o);
        }
        let _ = self.tier;
        o
    }
    fn vacuity_floor(&self) -> Vec<(&'static str, f64)> {
        vec![("parses", 15.0), ("evaluates", 3.0)]
    }
    fn shrink_iters(&self) -> u32 {
        600
    }
}
