//! C03 — JSON / YAML / TOML output decodes back to the value that was output.
//!
//! Oracle: independent decoders (Python json / tomllib / PyYAML with a YAML 1.2
//! core-schema resolver) read the converter's bytes; serde_* parsers are a
//! second opinion used only to classify decoder limitations.

use crate::core::*;
use crate::gval::{gen_val, GVal, GenOpts};
use crate::pyoracle::{show_dtree, DTree, PyOracle};
use crate::tape::{fnv, Tape};
use crate::ucgrun::Ucg;
use ucglib::build::Val;
use ucglib::convert::ConverterRegistry;

pub struct C03 {
    py: Option<PyOracle>,
    reg: ConverterRegistry,
    ucg: Ucg,
}

#[derive(PartialEq, Debug, Clone, Copy)]
enum Expect {
    MustOk,
    MustErr,
    Either,
}

pub fn num_eq_int_float(i: i64, f: f64) -> bool {
    if !f.is_finite() || f.fract() != 0.0 {
        return false;
    }
    // exact comparison through i128
    if f.abs() >= 1.7e38 {
        return false;
    }
    (f as i128) == i as i128
}

/// Does the decoded tree carry the same data as the value?
/// A plain scalar the decoder service flagged as read differently by YAML
/// versions/libraries, resolved strictly by the YAML 1.2 core schema.
fn resolve_ambiguous(text: &str) -> DTree {
    let digits = text.trim_start_matches(['-', '+']);
    let signed_once = text.len() - digits.len() <= 1;
    if signed_once && !digits.is_empty() && digits.bytes().all(|b| b.is_ascii_digit()) {
        // [-+]?[0-9]+ : leading zeros are allowed, the value is decimal
        let neg = text.starts_with('-');
        let t = digits.trim_start_matches('0');
        let t = if t.is_empty() { "0" } else { t };
        return DTree::Int(format!("{}{}", if neg && t != "0" { "-" } else { "" }, t));
    }
    let floaty = signed_once
        && !digits.is_empty()
        && digits.bytes().all(|b| b.is_ascii_digit() || b == b'.' || b == b'e' || b == b'E' || b == b'-' || b == b'+')
        && digits.bytes().next().map(|b| b.is_ascii_digit() || b == b'.').unwrap_or(false);
    if floaty {
        if let Ok(f) = text.parse::<f64>() {
            return DTree::Float(f);
        }
    }
    DTree::Str(text.to_string())
}

pub fn same_data(v: &GVal, d: &DTree, path: &str) -> Result<(), String> {
    if let DTree::Datetime(s) = d {
        if let Some(t) = s.strip_prefix("ambiguous-number ") {
            return same_data(v, &resolve_ambiguous(t), path);
        }
    }
    match (v, d) {
        (GVal::Null, DTree::Null) => Ok(()),
        (GVal::Bool(a), DTree::Bool(b)) if a == b => Ok(()),
        (GVal::Int(i), DTree::Int(s)) if *s == i.to_string() => Ok(()),
        (GVal::Int(i), DTree::Float(f)) if num_eq_int_float(*i, *f) => Ok(()),
        (GVal::Float(a), DTree::Float(b)) if a == b || (a.is_nan() && b.is_nan()) => Ok(()),
        (GVal::Float(a), DTree::Int(s)) => match s.parse::<i64>() {
            Ok(i) if num_eq_int_float(i, *a) => Ok(()),
            _ => Err(format!("at {}: float {:?} decoded as integer {}", path, a, s)),
        },
        (GVal::Str(a), DTree::Str(b)) if a == b => Ok(()),
        (GVal::List(a), DTree::List(b)) => {
            if a.len() != b.len() {
                return Err(format!("at {}: list of {} items decoded with {} items", path, a.len(), b.len()));
            }
            for (i, (x, y)) in a.iter().zip(b.iter()).enumerate() {
                same_data(x, y, &format!("{}[{}]", path, i))?;
            }
            Ok(())
        }
        (GVal::Tuple(a), DTree::Map(b)) => {
            if a.len() != b.len() {
                return Err(format!(
                    "at {}: tuple with keys {:?} decoded with keys [{}]",
                    path,
                    a.iter().map(|(k, _)| k).collect::<Vec<_>>(),
                    b.iter().map(|(k, _)| show_dtree(k)).collect::<Vec<_>>().join(", ")
                ));
            }
            for (k, x) in a {
                let hit = b.iter().find(|(dk, _)| match dk {
                    DTree::Str(s) => s == k,
                    DTree::Datetime(s) => match s.strip_prefix("ambiguous-number ") {
                        Some(t) => matches!(resolve_ambiguous(t), DTree::Str(r) if r == *k),
                        None => false,
                    },
                    _ => false,
                });
                match hit {
                    Some((_, y)) => same_data(x, y, &format!("{}.{:?}", path, k))?,
                    None => {
                        return Err(format!(
                            "at {}: key {:?} missing; decoded keys [{}]",
                            path,
                            k,
                            b.iter().map(|(k, _)| show_dtree(k)).collect::<Vec<_>>().join(", ")
                        ))
                    }
                }
            }
            Ok(())
        }
        _ => Err(format!("at {}: value {} decoded as {}", path, clipv(&v.show()), clipv(&show_dtree(d)))),
    }
}

fn clipv(s: &str) -> String {
    if s.chars().count() > 200 {
        format!("{}…", s.chars().take(200).collect::<String>())
    } else {
        s.to_string()
    }
}

fn has_mixed_list(v: &GVal) -> bool {
    fn kind(v: &GVal) -> u8 {
        match v {
            GVal::Null => 0,
            GVal::Bool(_) => 1,
            GVal::Int(_) => 2,
            GVal::Float(_) => 3,
            GVal::Str(_) => 4,
            GVal::List(_) => 5,
            GVal::Tuple(_) => 6,
            GVal::Constraint => 7,
        }
    }
    v.any(|x| match x {
        GVal::List(l) => l.windows(2).any(|w| kind(&w[0]) != kind(&w[1])),
        _ => false,
    })
}

/// a list of lists that (through lists only) holds a tuple: valid TOML 1.0 with
/// inline tables, but outside what the toml 0.5 serializer can write
fn nested_table_list(v: &GVal) -> bool {
    fn holds_tuple(l: &[GVal]) -> bool {
        l.iter().any(|e| match e {
            GVal::Tuple(_) => true,
            GVal::List(inner) => holds_tuple(inner),
            _ => false,
        })
    }
    v.any(|x| match x {
        GVal::List(l) => l.iter().any(|e| matches!(e, GVal::List(inner) if holds_tuple(inner))),
        _ => false,
    })
}

fn expectation(fmt: &str, v: &GVal) -> Expect {
    if v.any(|x| matches!(x, GVal::Constraint)) {
        return Expect::MustErr;
    }
    let nonfinite = v.any(|x| matches!(x, GVal::Float(f) if !f.is_finite()));
    match fmt {
        "json" => {
            if nonfinite {
                Expect::MustErr
            } else {
                Expect::MustOk
            }
        }
        "yaml" | "yamlmulti" => {
            if nonfinite {
                Expect::Either
            } else {
                Expect::MustOk
            }
        }
        _ => {
            // toml
            if v.any(|x| matches!(x, GVal::Null)) {
                return Expect::MustErr;
            }
            if !matches!(v, GVal::Tuple(_)) || has_mixed_list(v) || nested_table_list(v) || nonfinite {
                return Expect::Either;
            }
            Expect::MustOk
        }
    }
}

/// Second opinion: the serde_* parser of the same family reads the text back.
fn second_opinion(fmt: &str, bytes: &[u8]) -> Option<Vec<GVal>> {
    fn from_json(j: &serde_json::Value) -> GVal {
        match j {
            serde_json::Value::Null => GVal::Null,
            serde_json::Value::Bool(b) => GVal::Bool(*b),
            serde_json::Value::Number(n) => match n.as_i64() {
                Some(i) => GVal::Int(i),
                None => GVal::Float(n.as_f64().unwrap_or(f64::NAN)),
            },
            serde_json::Value::String(s) => GVal::Str(s.clone()),
            serde_json::Value::Array(a) => GVal::List(a.iter().map(from_json).collect()),
            serde_json::Value::Object(m) => GVal::Tuple(m.iter().map(|(k, v)| (k.clone(), from_json(v))).collect()),
        }
    }
    fn from_yaml(y: &serde_yaml::Value) -> Option<GVal> {
        Some(match y {
            serde_yaml::Value::Null => GVal::Null,
            serde_yaml::Value::Bool(b) => GVal::Bool(*b),
            serde_yaml::Value::Number(n) => match n.as_i64() {
                Some(i) => GVal::Int(i),
                None => GVal::Float(n.as_f64()?),
            },
            serde_yaml::Value::String(s) => GVal::Str(s.clone()),
            serde_yaml::Value::Sequence(a) => GVal::List(a.iter().map(from_yaml).collect::<Option<Vec<_>>>()?),
            serde_yaml::Value::Mapping(m) => {
                let mut out = vec![];
                for (k, v) in m {
                    out.push((k.as_str()?.to_string(), from_yaml(v)?));
                }
                GVal::Tuple(out)
            }
            serde_yaml::Value::Tagged(_) => return None,
        })
    }
    fn from_toml(t: &toml::Value) -> GVal {
        match t {
            toml::Value::String(s) => GVal::Str(s.clone()),
            toml::Value::Integer(i) => GVal::Int(*i),
            toml::Value::Float(f) => GVal::Float(*f),
            toml::Value::Boolean(b) => GVal::Bool(*b),
            toml::Value::Datetime(d) => GVal::Str(format!("<datetime {}>", d)),
            toml::Value::Array(a) => GVal::List(a.iter().map(from_toml).collect()),
            toml::Value::Table(m) => GVal::Tuple(m.iter().map(|(k, v)| (k.clone(), from_toml(v))).collect()),
        }
    }
    match fmt {
        "json" => serde_json::from_slice::<serde_json::Value>(bytes).ok().map(|j| vec![from_json(&j)]),
        "yaml" => serde_yaml::from_slice::<serde_yaml::Value>(bytes).ok().and_then(|y| from_yaml(&y)).map(|v| vec![v]),
        "yamlmulti" => {
            use serde_yaml::Deserializer;
            let text = std::str::from_utf8(bytes).ok()?;
            let mut out = vec![];
            for doc in Deserializer::from_str(text) {
                let v: serde_yaml::Value = serde::de::Deserialize::deserialize(doc).ok()?;
                out.push(from_yaml(&v)?);
            }
            Some(out)
        }
        _ => std::str::from_utf8(bytes).ok().and_then(|s| s.parse::<toml::Value>().ok()).map(|t| vec![from_toml(&t)]),
    }
}

fn gval_eq_loose(a: &GVal, b: &GVal) -> bool {
    match (a, b) {
        (GVal::Int(i), GVal::Float(f)) | (GVal::Float(f), GVal::Int(i)) => num_eq_int_float(*i, *f),
        (GVal::Float(x), GVal::Float(y)) => x == y || (x.is_nan() && y.is_nan()),
        (GVal::List(x), GVal::List(y)) => x.len() == y.len() && x.iter().zip(y).all(|(p, q)| gval_eq_loose(p, q)),
        (GVal::Tuple(x), GVal::Tuple(y)) => {
            x.len() == y.len()
                && x.iter().all(|(k, v)| y.iter().any(|(k2, v2)| k == k2 && gval_eq_loose(v, v2)))
        }
        _ => a == b,
    }
}

impl C03 {
    pub fn new(_tier: Tier) -> Self {
        C03 {
            py: None,
            reg: ConverterRegistry::make_registry(),
            ucg: Ucg::new(),
        }
    }

    /// Check one produced text against the value. `what` names the observation path.
    fn check_text(&mut self, fmt: &str, v: &GVal, bytes: &[u8], what: &str, o: &mut Outcome) {
        let decoded = match self.py.as_mut().unwrap().decode_tree(fmt, bytes) {
            Ok(d) => d,
            Err(e) => panic!("harness: decoder service failed: {}", e),
        };
        let text = String::from_utf8_lossy(bytes);
        // expected documents
        let docs: Vec<GVal> = if fmt == "yamlmulti" {
            match v {
                GVal::List(l) => l.clone(),
                other => vec![other.clone()],
            }
        } else {
            vec![v.clone()]
        };
        match decoded {
            Ok(tree) => {
                let res = if fmt == "yamlmulti" {
                    match &tree {
                        DTree::Docs(ds) => {
                            if ds.len() != docs.len() {
                                Err(format!("{} documents written, {} documents read back", docs.len(), ds.len()))
                            } else {
                                docs.iter().zip(ds).enumerate().try_for_each(|(i, (g, d))| same_data(g, d, &format!("doc{}", i)))
                            }
                        }
                        _ => Err("decoder did not return a document list".into()),
                    }
                } else {
                    same_data(v, &tree, "$")
                };
                if let Err(why) = res {
                    let sig = format!("C03/{}-decodes-differently", fmt);
                    o.fail(&sig, format!("{} {}: {}\nvalue: {}\ntext:\n{}", what, fmt, why, clipv(&v.show()), clipv(&text)));
                }
            }
            Err(reject) => {
                // primary decoder rejects: consult the second opinion
                match second_opinion(fmt, bytes) {
                    Some(back) if back.len() == docs.len() && back.iter().zip(&docs).all(|(a, b)| gval_eq_loose(a, b)) => {
                        o.class("decoder-limitation");
                    }
                    _ => {
                        let sig = format!("C03/{}-invalid-text", fmt);
                        o.fail(&sig, format!("{} {}: the independent decoder rejects the output ({}) and the second parser does not read the value back either\nvalue: {}\ntext:\n{}", what, fmt, reject, clipv(&v.show()), clipv(&text)));
                    }
                }
            }
        }
    }
}

impl Property for C03 {
    fn id(&self) -> &'static str {
        "C03"
    }
    fn rule(&self) -> String {
        "generated value trees (NULL, booleans, i64 incl. extremes and 2^53 neighbours, finite/non-finite floats, Unicode and format-significant strings, lists/tuples to depth 5, keys needing quoting, constraint values) x {json, yaml, toml, yamlmulti}; the converter output (registry call, `convert` expression and `out` statement of an evaluated program) is decoded by an independent decoder and compared with the value. Non-trivial: the value holds a format-significant string, a key needing quoting, an integer beyond 2^53, a nested empty container, a mixed list, or is unrepresentable; distinct by (format, value).".into()
    }
    fn assumptions(&self) -> Vec<String> {
        vec![
            "Python json, tomllib (TOML 1.0) and PyYAML's parser with a YAML 1.2 core-schema resolver are the meaning of the formats".into(),
            "TOML: a non-table top level, mixed-type arrays, tuples inside lists of lists and non-finite floats may be rejected or round-tripped (either is accepted); YAML: non-finite floats likewise".into(),
            "a text the primary decoder rejects but the serde_* parser reads back equal is counted as a decoder limitation".into(),
        ]
    }
    fn budget(&self, tier: Tier) -> Budget {
        Budget {
            cases: match tier {
                Tier::Quick => 60_000,
                Tier::Thorough => 1_200_000,
            },
            tape_min: 2,
            tape_max: 160,
        }
    }
    fn run_tape(&mut self, words: &[u32]) -> Outcome {
        if self.py.is_none() {
            self.py = Some(PyOracle::start().unwrap_or_else(|e| panic!("harness: cannot start decoder service: {}", e)));
        }
        let mut t = Tape::new(words);
        let fmt = *t.pick(&["json", "yaml", "toml", "yamlmulti"]);
        let opts = GenOpts::default();
        // shape the top level to what the format is used for
        let v = match fmt {
            "toml" if t.chance(9, 10) => {
                let mut fs = vec![];
                let n = t.choice(5);
                let o2 = GenOpts { null: t.chance(1, 8), constraint: t.chance(1, 12), nonfinite: t.chance(1, 8), ..opts.clone() };
                for _ in 0..n {
                    let k = crate::gval::gen_key(&mut t, &fs);
                    let val = gen_val(&mut t, &o2, 1);
                    fs.push((k, val));
                }
                GVal::Tuple(fs)
            }
            "yamlmulti" if t.chance(4, 5) => {
                let n = t.choice(4);
                let o2 = GenOpts { constraint: t.chance(1, 12), nonfinite: t.chance(1, 8), ..opts.clone() };
                GVal::List((0..n).map(|_| gen_val(&mut t, &o2, 1)).collect())
            }
            _ => {
                let o2 = GenOpts { constraint: t.chance(1, 12), nonfinite: t.chance(1, 8), ..opts.clone() };
                gen_val(&mut t, &o2, 0)
            }
        };
        self.check_value(fmt, &v)
    }
    fn run_text(&mut self, text: &str) -> Outcome {
        if self.py.is_none() {
            self.py = Some(PyOracle::start().unwrap_or_else(|e| panic!("harness: cannot start decoder service: {}", e)));
        }
        let j: serde_json::Value = serde_json::from_str(text).expect("replay text is JSON");
        let fmt = j.get("fmt").and_then(|f| f.as_str()).expect("fmt").to_string();
        let v = GVal::from_json(j.get("value").expect("value")).expect("value encoding");
        let fmt: &'static str = match fmt.as_str() {
            "json" => "json",
            "yaml" => "yaml",
            "toml" => "toml",
            _ => "yamlmulti",
        };
        self.check_value(fmt, &v)
    }
}

impl C03 {
    fn check_value(&mut self, fmt: &'static str, v: &GVal) -> Outcome {
        let v = v.clone();
        let rendered = format!("{} <- {}", fmt, v.show());
        let mut o = Outcome::pass(rendered.clone());
        o.portable = Some(serde_json::json!({"fmt": fmt, "value": v.to_json()}).to_string());
        o.key = fnv(rendered.as_bytes());
        o.class(fmt);
        let expect = expectation(fmt, &v);
        let sig_str = v.any(|x| matches!(x, GVal::Str(s) if crate::gval::SIGNIFICANT.contains(&s.as_str()) || s.contains('\n') || !s.is_ascii()));
        let odd_key = v.any_key(|k| !k.chars().all(|c| c.is_ascii_alphanumeric() || c == '_') || k.is_empty());
        let big = v.any(|x| matches!(x, GVal::Int(i) if i.unsigned_abs() > (1u64 << 53)));
        let nested_empty = v.depth() >= 2 && v.any(|x| matches!(x, GVal::List(l) if l.is_empty()) || matches!(x, GVal::Tuple(f) if f.is_empty()));
        o.nontrivial = sig_str || odd_key || big || nested_empty || has_mixed_list(&v) || expect != Expect::MustOk;
        if sig_str { o.class("significant-string"); }
        if odd_key { o.class("key-needs-quoting"); }
        if big { o.class("int-beyond-2^53"); }
        if expect == Expect::MustErr { o.class("unrepresentable"); }

        // 1. registry conversion
        let conv = self.reg.get_converter(fmt).expect("converter registered");
        let mut buf: Vec<u8> = vec![];
        let res = conv.convert(v.to_val(), &mut buf);
        match (&res, expect) {
            (Ok(()), Expect::MustErr) => {
                o.fail(&format!("C03/{}-unrepresentable-accepted", fmt), format!("{} cannot represent this value but the converter succeeded\nvalue: {}\ntext:\n{}", fmt, clipv(&v.show()), clipv(&String::from_utf8_lossy(&buf))));
                return o;
            }
            (Err(e), Expect::MustOk) => {
                o.fail(&format!("C03/{}-representable-rejected", fmt), format!("{} can represent this value but the converter failed: {}\nvalue: {}", fmt, e, clipv(&v.show())));
                return o;
            }
            (Err(_), _) => {
                o.class("conversion-error");
            }
            (Ok(()), _) => {
                self.check_text(fmt, &v, &buf, "registry", &mut o);
            }
        }
        if o.is_fail() {
            return o;
        }
        // 2./3. the same value through an evaluated program
        if let Some(lit) = v.to_ucg() {
            o.class("in-program");
            let src = format!("let c = convert {} {};\nout {} {};\n", fmt, lit, fmt, lit);
            self.ucg.reset();
            let r = self.ucg.eval(&src, true);
            let stdout = self.ucg.out.take().into_bytes();
            match (r, res.is_ok()) {
                (Ok(val), true) => {
                    let c = match val.as_ref() {
                        Val::Tuple(fs) => fs.iter().find(|(k, _)| k.as_ref() == "c").map(|(_, v)| v.clone()),
                        _ => None,
                    };
                    match c.as_deref() {
                        Some(Val::Str(s)) => {
                            if s.as_bytes() != &buf[..] {
                                self.check_text(fmt, &v, s.as_bytes(), "`convert` expression", &mut o);
                            }
                        }
                        other => o.fail("C03/convert-expr-not-string", format!("convert expression bound {:?}", other)),
                    }
                    if !o.is_fail() && stdout != buf {
                        self.check_text(fmt, &v, &stdout, "`out` statement", &mut o);
                    }
                }
                (Err(_), false) => {}
                (Ok(_), false) => o.fail(&format!("C03/{}-unrepresentable-accepted", fmt), format!("the converter rejects the value but the program `{}` builds", clipv(&src))),
                (Err(e), true) => o.fail(&format!("C03/{}-in-program-fails", fmt), format!("the converter accepts the value but the program fails: {}\n{}", e, clipv(&src))),
            }
            // 4. the artifact `ucg build` writes, over an older and longer artifact of the same name
            if !o.is_fail() && res.is_ok() && crate::tape::fnv(v.show().as_bytes()) % 8 == 0 {
                o.class("artifact-over-older-file");
                self.ucg.reset();
                let path = self.ucg.fresh_path("main", "ucg");
                let dir = path.parent().unwrap().to_path_buf();
                let stale: Vec<u8> = std::iter::repeat(b"stale: \"old artifact line\"\n".iter().copied()).take(300).flatten().collect();
                for ext in ["json", "yaml", "yml", "toml"] {
                    let _ = std::fs::write(dir.join(format!("main.{}", ext)), &stale);
                }
                let _ = std::fs::write(&path, format!("out {} {};\n", fmt, lit));
                let r = self.ucg.build(&path, true);
                match r {
                    Ok(_) => {
                        let mut found = false;
                        for ext in ["json", "yaml", "yml", "toml"] {
                            if let Ok(bytes) = std::fs::read(dir.join(format!("main.{}", ext))) {
                                if bytes != stale {
                                    found = true;
                                    if bytes != buf {
                                        self.check_text(fmt, &v, &bytes, "artifact written over an older, longer file", &mut o);
                                    }
                                }
                            }
                        }
                        if !found {
                            o.fail(&format!("C03/{}-no-artifact", fmt), format!("the build succeeded but no artifact main.* was written for `{}`", clipv(&src)));
                        }
                    }
                    Err(e) => o.fail(&format!("C03/{}-in-program-fails", fmt), format!("the converter accepts the value but building the file fails: {}\n{}", e, clipv(&src))),
                }
                self.ucg.cleanup_case_dir(&path);
            }
        }
        o
    }
}
