//! C13 — `ucg test` reports a file as passing exactly when all its assertions hold.
//!
//! Oracle: verdict model (PASS <=> the file builds and every evaluated assert
//! has ok = true; malformed asserts count as failures) + metamorphism (a file's
//! verdict and log do not depend on the other files of the invocation, also when
//! two test files import the same helper file that carries an assert).

use crate::cli;
use crate::core::*;
use crate::tape::{fnv, Tape};
use std::path::PathBuf;

pub struct C13 {
    home: PathBuf,
}

#[derive(Clone, Debug, PartialEq)]
enum St {
    True,
    False,
    /// ok is not a boolean
    OkNotBool,
    MissingDesc,
    NotTuple,
    /// malformed value hidden behind a function call (the static checker cannot see it)
    HiddenOkNotBool,
    HiddenNotTuple,
    /// a statement that stops the build at run time
    BuildError,
    SyntaxError,
    /// plain binding
    Let,
    /// an assert in the body of a module that is instantiated by a function applied through map
    DeepTrue,
    DeepFalse,
    /// import of a helper file (not a test file itself) that carries an assert; an import is
    /// evaluated once per build, so only the first import of a helper in a file logs its assert
    ImportOk,
    ImportBad,
}

const HELPER_OK: &str = "assert {ok = 1 == 1, desc = \"helper-ok\"};\nlet v = 1;\n";
const HELPER_BAD: &str = "let v = 2;\nassert {ok = v == 1, desc = \"helper-bad\"};\n";

#[derive(Clone, Debug)]
struct TestFile {
    name: String,
    stmts: Vec<St>,
}

impl TestFile {
    fn source(&self, fi: usize) -> String {
        let mut s = String::new();
        s.push_str("let mk = func (v) => v;\n");
        for (j, st) in self.stmts.iter().enumerate() {
            let d = format!("f{}a{}", fi, j);
            match st {
                St::True => s.push_str(&format!("assert {{ok = 1 == 1, desc = \"{}\"}};\n", d)),
                St::False => s.push_str(&format!("assert {{ok = 1 == 2, desc = \"{}\"}};\n", d)),
                St::OkNotBool => s.push_str(&format!("assert {{ok = \"yes\", desc = \"{}\"}};\n", d)),
                St::MissingDesc => s.push_str(&format!("assert {{ok = true, note = \"{}\"}};\n", d)),
                St::NotTuple => s.push_str("assert [1, 2];\n"),
                St::HiddenOkNotBool => s.push_str(&format!("assert mk({{ok = 1, desc = \"{}\"}});\n", d)),
                St::HiddenNotTuple => s.push_str(&format!("assert mk(\"{}\");\n", d)),
                St::BuildError => s.push_str(&format!("let boom{} = 1 / (1 - 1);\n", j)),
                St::SyntaxError => s.push_str(&format!("let broken{} = = 1;\n", j)),
                St::Let => s.push_str(&format!("let x{} = {};\n", j, j)),
                St::ImportOk => s.push_str(&format!("let h{} = import \"./helper_ok.ucg\";\n", j)),
                St::ImportBad => s.push_str(&format!("let h{} = import \"./helper_bad.ucg\";\n", j)),
                St::DeepTrue | St::DeepFalse => s.push_str(&format!(
                    "let chk{j} = module {{v = 1}} => {{ assert {{ok = mod.v == 1, desc = \"{d}\"}}; }};\nlet run{j} = map(func (x) => chk{j}{{v = x}}, [{v}]);\n",
                    j = j,
                    d = d,
                    v = if *st == St::DeepTrue { 1 } else { 2 }
                )),
            }
        }
        s
    }

    /// does the model say PASS?
    fn passes(&self) -> bool {
        self.stmts.iter().all(|s| matches!(s, St::True | St::Let | St::DeepTrue | St::ImportOk))
    }

    fn builds(&self) -> bool {
        !self.stmts.iter().any(|s| matches!(s, St::BuildError | St::SyntaxError))
    }

    /// descriptions of the well-formed asserts evaluated before the first build error
    fn logged(&self, fi: usize) -> Vec<(String, bool)> {
        let mut out = vec![];
        if self.stmts.iter().any(|s| *s == St::SyntaxError) {
            return out;
        }
        for (j, st) in self.stmts.iter().enumerate() {
            match st {
                St::True | St::DeepTrue => out.push((format!("f{}a{}", fi, j), true)),
                St::False | St::DeepFalse => out.push((format!("f{}a{}", fi, j), false)),
                St::ImportOk => {
                    if !out.iter().any(|(d, _)| d == "helper-ok") {
                        out.push(("helper-ok".to_string(), true));
                    }
                }
                St::ImportBad => {
                    if !out.iter().any(|(d, _)| d == "helper-bad") {
                        out.push(("helper-bad".to_string(), false));
                    }
                }
                St::BuildError => break,
                _ => {}
            }
        }
        out
    }
}

#[derive(Debug, Default, Clone)]
struct FileReport {
    verdict_line: Option<bool>,
    summary_line: Option<bool>,
    log: Vec<(String, bool)>,
    raw_log: String,
}

fn parse_output(stdout: &str, names: &[String]) -> Vec<FileReport> {
    let mut reports = vec![FileReport::default(); names.len()];
    let mut cur: Option<usize> = None;
    let mut in_results = false;
    for line in stdout.lines() {
        if let Some(rest) = line.strip_prefix("Validating ") {
            cur = names.iter().position(|n| rest.trim().ends_with(n.as_str()));
            in_results = false;
            continue;
        }
        if line.trim() == "RESULTS:" {
            in_results = true;
            cur = None;
            continue;
        }
        if in_results {
            for (i, n) in names.iter().enumerate() {
                if line.trim_end().ends_with(&format!("{} - PASS", n)) {
                    reports[i].summary_line = Some(true);
                } else if line.trim_end().ends_with(&format!("{} - FAIL", n)) {
                    reports[i].summary_line = Some(false);
                }
            }
            if line.trim().is_empty() {
                in_results = false;
            }
            continue;
        }
        if let Some(rest) = line.strip_prefix("File ") {
            for (i, n) in names.iter().enumerate() {
                if rest.trim_end().ends_with(&format!("{} Pass", n)) {
                    reports[i].verdict_line = Some(true);
                } else if rest.trim_end().ends_with(&format!("{} Fail", n)) {
                    reports[i].verdict_line = Some(false);
                }
            }
            cur = None;
            continue;
        }
        if let Some(i) = cur {
            reports[i].raw_log.push_str(line);
            reports[i].raw_log.push('\n');
            // "N - OK: desc" / "N - NOT OK: desc"
            if let Some((_, rest)) = line.split_once(" - ") {
                if let Some(d) = rest.strip_prefix("OK: ") {
                    reports[i].log.push((d.trim().to_string(), true));
                } else if let Some(d) = rest.strip_prefix("NOT OK: ") {
                    reports[i].log.push((d.trim().to_string(), false));
                }
            }
        }
    }
    reports
}

fn permutations(n: usize) -> Vec<Vec<usize>> {
    fn go(cur: &mut Vec<usize>, used: &mut Vec<bool>, n: usize, out: &mut Vec<Vec<usize>>) {
        if cur.len() == n {
            out.push(cur.clone());
            return;
        }
        for i in 0..n {
            if !used[i] {
                used[i] = true;
                cur.push(i);
                go(cur, used, n, out);
                cur.pop();
                used[i] = false;
            }
        }
    }
    let mut out = vec![];
    go(&mut vec![], &mut vec![false; n], n, &mut out);
    out
}

impl C13 {
    pub fn new(_tier: Tier) -> Self {
        C13 { home: crate::ucgrun::new_scratch_dir("c13home") }
    }

    fn run(&self, dir: &std::path::Path, args: Vec<String>) -> cli::RunOut {
        cli::run_ucg(&cli::Cmd { args, cwd: dir, env: vec![], home: &self.home, timeout: std::time::Duration::from_secs(60), stdin: None })
    }

    fn check_files(&mut self, files: &[TestFile]) -> Outcome {
        let rendered = files.iter().enumerate().map(|(i, f)| format!("--- {} ---\n{}", f.name, f.source(i))).collect::<Vec<_>>().join("");
        let mut o = Outcome::pass(rendered.clone());
        o.key = fnv(rendered.as_bytes());
        o.portable = Some(serde_json::json!(files.iter().map(|f| serde_json::json!({"name": f.name, "stmts": f.stmts.iter().map(|s| format!("{:?}", s)).collect::<Vec<_>>()})).collect::<Vec<_>>()).to_string());
        let dir = crate::ucgrun::new_scratch_dir("c13");
        for (i, f) in files.iter().enumerate() {
            std::fs::write(dir.join(&f.name), f.source(i)).expect("write");
        }
        std::fs::write(dir.join("helper_ok.ucg"), HELPER_OK).expect("write");
        std::fs::write(dir.join("helper_bad.ucg"), HELPER_BAD).expect("write");
        let shared_helper = [St::ImportOk, St::ImportBad].iter().any(|h| files.iter().filter(|f| f.stmts.contains(h)).count() >= 2);
        if shared_helper {
            o.class("helper-with-assert-imported-by-two-files");
        }
        let names: Vec<String> = files.iter().map(|f| f.name.clone()).collect();
        o.class(&format!("files-{}", files.len()));
        // every order (up to 4 files = 24)
        let perms = permutations(files.len());
        let mut fail_then_pass = false;
        // every order in strict mode, and the first order once more with --no-strict (nothing in
        // these files depends on strictness)
        let mut runs: Vec<(&Vec<usize>, bool)> = perms.iter().map(|p| (p, false)).collect();
        runs.push((&perms[0], true));
        'outer: for (perm, no_strict) in runs.into_iter() {
            let order: Vec<&TestFile> = perm.iter().map(|i| &files[*i]).collect();
            if order.windows(2).any(|w| !w[0].passes() && w[1].passes()) || (0..order.len()).any(|a| (a + 1..order.len()).any(|b| !order[a].passes() && order[b].passes())) {
                fail_then_pass = true;
            }
            let mut args: Vec<String> = std::iter::once("test".to_string()).chain(perm.iter().map(|i| names[*i].clone())).collect();
            if no_strict {
                args.insert(0, "--no-strict".to_string());
            }
            let r = self.run(&dir, args.clone());
            if r.timed_out {
                let _ = std::fs::remove_dir_all(&dir);
                return Outcome::discard("cli timeout", rendered);
            }
            let ctx = |why: String| format!("{}\ninvocation: ucg {}\n{}\nstdout:\n{}\nstderr:\n{}", why, args.join(" "), rendered, r.stdout, r.stderr);
            if !matches!(r.code, Some(0) | Some(1)) {
                o.fail("C13/crash", ctx(format!("`ucg test` ended with {}", r.describe())));
                break 'outer;
            }
            let any_fail = files.iter().any(|f| !f.passes());
            if (r.code == Some(1)) != any_fail {
                o.fail("C13/exit-status", ctx(format!("exit status {} but the model says {}", r.describe(), if any_fail { "some file fails" } else { "every file passes" })));
                break 'outer;
            }
            let reports = parse_output(&r.stdout, &names);
            for (i, f) in files.iter().enumerate() {
                let rep = &reports[i];
                let want = f.passes();
                // a malformed assert the static checker can see may stop the build instead
                let maybe_rejected = f.stmts.iter().any(|s| matches!(s, St::OkNotBool | St::MissingDesc | St::NotTuple));
                if f.builds() && !(maybe_rejected && rep.verdict_line.is_none()) {
                    if rep.verdict_line != Some(want) {
                        o.fail("C13/verdict", ctx(format!("file {} should be reported {} but its verdict line says {:?}", f.name, if want { "Pass" } else { "Fail" }, rep.verdict_line.map(|b| if b { "Pass" } else { "Fail" }))));
                        break 'outer;
                    }
                    // the log: every well-formed assertion exactly once, nothing from other files
                    let logged = f.logged(i);
                    for (d, ok) in &logged {
                        let n = rep.log.iter().filter(|(ld, _)| ld == d).count();
                        if n != 1 {
                            o.fail("C13/assertion-log", ctx(format!("assertion {} should appear exactly once in the log of {} but appears {} time(s)", d, f.name, n)));
                            break 'outer;
                        }
                        if rep.log.iter().find(|(ld, _)| ld == d).map(|(_, b)| *b) != Some(*ok) {
                            o.fail("C13/assertion-log", ctx(format!("assertion {} of {} is logged with the wrong result", d, f.name)));
                            break 'outer;
                        }
                    }
                    for (ld, _) in &rep.log {
                        if ld.starts_with('f') && !ld.starts_with(&format!("f{}a", i)) && ld.chars().skip(1).next().map(|c| c.is_ascii_digit()).unwrap_or(false) {
                            o.fail("C13/assertion-log", ctx(format!("the log of {} contains assertion {} of another file", f.name, ld)));
                            break 'outer;
                        }
                    }
                    // malformed asserts are failures recorded in the log too
                    let malformed = f.stmts.iter().filter(|s| matches!(s, St::OkNotBool | St::MissingDesc | St::NotTuple | St::HiddenOkNotBool | St::HiddenNotTuple)).count();
                    let type_fails = rep.log.iter().filter(|(d, ok)| !ok && d.contains("TYPE FAIL")).count();
                    // nothing else in the log, numbered 0, 1, 2, …
                    let evaluated_malformed = {
                        // malformed asserts evaluated before the first run-time build error
                        let mut n = 0;
                        for st in &f.stmts {
                            match st {
                                St::BuildError => break,
                                St::OkNotBool | St::MissingDesc | St::NotTuple | St::HiddenOkNotBool | St::HiddenNotTuple => n += 1,
                                _ => {}
                            }
                        }
                        n
                    };
                    if rep.log.len() != logged.len() + evaluated_malformed {
                        o.fail("C13/assertion-log", ctx(format!("{} evaluates {} assertion(s) but its log has {} entries", f.name, logged.len() + evaluated_malformed, rep.log.len())));
                        break 'outer;
                    }
                    let numbers: Vec<String> = rep.raw_log.lines().filter(|l| l.contains(" - OK: ") || l.contains(" - NOT OK: ")).map(|l| l.split(" - ").next().unwrap_or("").trim().to_string()).collect();
                    if numbers.iter().enumerate().any(|(i, n)| *n != i.to_string()) {
                        o.fail("C13/assertion-log", ctx(format!("the log of {} is not numbered 0,1,2,…: {:?}", f.name, numbers)));
                        break 'outer;
                    }
                    if type_fails != malformed {
                        o.fail("C13/assertion-log", ctx(format!("{} has {} malformed assertion(s) but its log records {} TYPE FAIL entries", f.name, malformed, type_fails)));
                        break 'outer;
                    }
                } else if rep.verdict_line == Some(true) {
                    o.fail("C13/verdict", ctx(format!("file {} does not build but is reported Pass", f.name)));
                    break 'outer;
                }
                if rep.summary_line != Some(want) {
                    o.fail("C13/summary", ctx(format!("the RESULTS line of {} should say {} but says {:?}", f.name, if want { "PASS" } else { "FAIL" }, rep.summary_line.map(|b| if b { "PASS" } else { "FAIL" }))));
                    break 'outer;
                }
            }
        }
        // recursive directory form
        if !o.is_fail() {
            let r = self.run(&dir, vec!["test".into(), "-r".into(), ".".into()]);
            if !r.timed_out {
                let any_fail = files.iter().any(|f| !f.passes());
                if !matches!(r.code, Some(0) | Some(1)) || (r.code == Some(1)) != any_fail {
                    o.fail("C13/exit-status", format!("`ucg test -r .` ends with {} but the model says {}\n{}\nstdout:\n{}\nstderr:\n{}", r.describe(), if any_fail { "some file fails" } else { "every file passes" }, rendered, r.stdout, r.stderr));
                } else {
                    let reports = parse_output(&r.stdout, &names);
                    for (i, f) in files.iter().enumerate() {
                        if reports[i].summary_line != Some(f.passes()) {
                            o.fail("C13/summary", format!("`ucg test -r .`: the RESULTS line of {} should say {} but says {:?}\n{}\nstdout:\n{}", f.name, if f.passes() { "PASS" } else { "FAIL" }, reports[i].summary_line, rendered, r.stdout));
                            break;
                        }
                    }
                }
            }
        }
        o.nontrivial = files.len() >= 2 && fail_then_pass;
        if fail_then_pass {
            o.class("failing-file-before-passing-file");
        }
        let _ = std::fs::remove_dir_all(&dir);
        o
    }
}

fn st_from_str(s: &str) -> St {
    match s {
        "True" => St::True,
        "False" => St::False,
        "OkNotBool" => St::OkNotBool,
        "MissingDesc" => St::MissingDesc,
        "NotTuple" => St::NotTuple,
        "HiddenOkNotBool" => St::HiddenOkNotBool,
        "HiddenNotTuple" => St::HiddenNotTuple,
        "BuildError" => St::BuildError,
        "SyntaxError" => St::SyntaxError,
        "DeepTrue" => St::DeepTrue,
        "DeepFalse" => St::DeepFalse,
        "ImportOk" => St::ImportOk,
        "ImportBad" => St::ImportBad,
        _ => St::Let,
    }
}

impl Property for C13 {
    fn id(&self) -> &'static str {
        "C13"
    }
    fn rule(&self) -> String {
        "generated *_test.ucg files with 0..8 statements drawn from {true assert, false assert, malformed assert (ok not boolean, missing desc, not a tuple; visible and hidden behind a function call), run-time build error, syntax error, plain let, import of a shared helper file that carries a true / false assert (logged once per importing file)}; every invocation order of 1..4 such files (all permutations) plus `ucg test -r .`; the real binary's stdout (per-file log, `File f Pass|Fail`, RESULTS lines) and exit status are compared with the verdict model, each assertion must appear exactly once in its own file's log and in no other. Non-trivial: >= 2 files with a failing file before a passing one in some order; distinct by the set of files.".into()
    }
    fn assumptions(&self) -> Vec<String> {
        vec!["for a file whose build fails only the verdict, the RESULTS line, the exit status and the absence of its assertions from other files' logs are checked (such a file prints no log)".into()]
    }
    fn shards(&self) -> usize {
        16
    }
    fn budget(&self, tier: Tier) -> Budget {
        Budget {
            cases: match tier {
                Tier::Quick => 480,
                Tier::Thorough => 9_000,
            },
            tape_min: 6,
            tape_max: 80,
        }
    }
    fn run_tape(&mut self, words: &[u32]) -> Outcome {
        let mut t = Tape::new(words);
        let nfiles = 1 + t.weighted(&[2, 4, 3, 1]);
        let mut files = vec![];
        for i in 0..nfiles {
            let n = t.choice(9);
            // most files are all-true so that fail-then-pass orders are common
            let flavour = t.weighted(&[4, 4, 2]);
            let mut stmts = vec![];
            for _ in 0..n {
                let st = match flavour {
                    0 => {
                        if t.chance(1, 5) { St::Let } else if t.chance(1, 5) { St::DeepTrue } else if t.chance(1, 6) { if t.chance(1, 3) { St::ImportBad } else { St::ImportOk } } else { St::True }
                    }
                    1 => match t.weighted(&[6, 3, 1, 1, 1, 1, 1, 1, 1, 2, 2, 2, 2, 2]) {
                        12 => St::ImportOk,
                        13 => St::ImportBad,
                        10 => St::DeepTrue,
                        11 => St::DeepFalse,
                        0 => St::True,
                        1 => St::False,
                        2 => St::OkNotBool,
                        3 => St::MissingDesc,
                        4 => St::NotTuple,
                        5 => St::HiddenOkNotBool,
                        6 => St::HiddenNotTuple,
                        7 => St::BuildError,
                        8 => St::SyntaxError,
                        _ => St::Let,
                    },
                    _ => match t.weighted(&[5, 3, 2, 1]) {
                        0 => St::True,
                        1 => St::False,
                        2 => St::BuildError,
                        _ => St::HiddenOkNotBool,
                    },
                };
                stmts.push(st);
            }
            files.push(TestFile { name: format!("t{}_test.ucg", i), stmts });
        }
        self.check_files(&files)
    }
    fn run_text(&mut self, text: &str) -> Outcome {
        let j: serde_json::Value = serde_json::from_str(text).expect("replay text is JSON");
        let mut files = vec![];
        for f in j.as_array().expect("array") {
            files.push(TestFile {
                name: f.get("name").and_then(|n| n.as_str()).unwrap_or("t_test.ucg").to_string(),
                stmts: f.get("stmts").and_then(|s| s.as_array()).map(|a| a.iter().map(|x| st_from_str(x.as_str().unwrap_or("Let"))).collect()).unwrap_or_default(),
            });
        }
        self.check_files(&files)
    }
    fn vacuity_floor(&self) -> Vec<(&'static str, f64)> {
        vec![("failing-file-before-passing-file", 10.0)]
    }
}
