//! Generated value trees (C03, C08, C12, C14, C15, C19) decoded from the tape.

use crate::tape::Tape;
use std::rc::Rc;
use ucglib::build::ir::{ConstraintBound, ConstraintVal, ConstraintValArm};
use ucglib::build::Val;

#[derive(Clone, Debug, PartialEq)]
pub enum GVal {
    Null,
    Bool(bool),
    Int(i64),
    Float(f64),
    Str(String),
    List(Vec<GVal>),
    Tuple(Vec<(String, GVal)>),
    /// a constraint value (`in 1..5`): no output format can represent it
    Constraint,
}

#[derive(Clone)]
pub struct GenOpts {
    pub max_depth: u32,
    pub max_width: usize,
    pub nonfinite: bool,
    pub constraint: bool,
    pub null: bool,
    pub floats: bool,
    /// only strings/keys a ucg source literal can carry (everything can; kept for symmetry)
    pub ascii_only: bool,
}

impl Default for GenOpts {
    fn default() -> Self {
        GenOpts {
            max_depth: 5,
            max_width: 4,
            nonfinite: true,
            constraint: true,
            null: true,
            floats: true,
            ascii_only: false,
        }
    }
}

pub const SIGNIFICANT: [&str; 50] = [
    "007", "1_000", "0b11", "+1", "1.", "00.5",
    "true", "false", "yes", "no", "on", "off", "~", "null", "Null", "NULL", "1", "0", "-1", "0o7", "0x1F",
    "1e3", "1.5", ".5", ".inf", ".nan", "a: b", "- x", "#c", " #c", "a\nb", "line\n", "line\n\n", " lead",
    "trail ", "'", "\"", "\\", "a'b\"c", "---", "]]>", "[x]", "{x}", "&a", "*a", "!t", "%d", "@", "1979-05-27",
    "",
];

pub const KEYS_PLAIN: [&str; 10] = ["a", "b", "c", "name", "x1", "k-2", "k_3", "host", "port", "id"];
pub const KEYS_ODD: [&str; 18] = [
    "", "a.b", "a b", "ké", "日本", "true", "null", "1", "a=b", "a:b", "#h", "a\"q", "a'q", "[s]", "~", "yes",
    "a\nb", " k",
];

pub fn gen_int(t: &mut Tape) -> i64 {
    match t.weighted(&[8, 3, 2, 2, 2]) {
        0 => t.range(-20, 100),
        1 => {
            let p = t.range(1, 62) as u32;
            let base = 1i64 << p;
            base + t.range(-1, 1)
        }
        2 => *t.pick(&[
            (1i64 << 53) - 1,
            1i64 << 53,
            (1i64 << 53) + 1,
            -(1i64 << 53) - 1,
            (1i64 << 53) + 3,
            9_007_199_254_740_993,
        ]),
        3 => *t.pick(&[i64::MAX, i64::MIN, i64::MAX - 1, i64::MIN + 1]),
        _ => t.u64() as i64,
    }
}

pub fn gen_float(t: &mut Tape, nonfinite: bool) -> f64 {
    match t.weighted(&[6, 3, 2, 2, 2, if nonfinite { 2 } else { 0 }]) {
        0 => *t.pick(&[0.5, 1.5, 2.25, -3.75, 0.1, 100.125, 3.14159]),
        1 => *t.pick(&[1.0, 0.0, -1.0, 42.0, 1e15, 1e16, 123456789.0]),
        2 => *t.pick(&[1e300, -1e300, 1.7976931348623157e308, 1e-7, 1e-300, 5e-324, 2.2250738585072014e-308]),
        3 => {
            let bits = t.u64();
            let f = f64::from_bits(bits);
            if f.is_finite() {
                f
            } else {
                1.25
            }
        }
        4 => (t.range(-1_000_000, 1_000_000) as f64) / 1000.0,
        _ => *t.pick(&[f64::NAN, f64::INFINITY, f64::NEG_INFINITY]),
    }
}

pub fn gen_char(t: &mut Tape) -> char {
    match t.weighted(&[10, 4, 3, 2, 2, 2]) {
        0 => *t.pick(&['a', 'b', 'z', 'A', 'Q', '0', '7', ' ', '_', '-', '.']),
        1 => *t.pick(&[
            '\'', '"', '\\', '$', '`', '*', '?', '!', '#', '&', '<', '>', '|', ';', ':', '=', '%', '@', '{',
            '}', '[', ']', '(', ')', ',', '~', '/',
        ]),
        2 => *t.pick(&['é', 'ß', 'Ω', 'ж', '→', '日', '本', '語', '\u{a0}', '\u{85}', '\u{2028}', '\u{feff}']),
        3 => *t.pick(&['😀', '𝄞', '\u{10FFFF}', '\u{1F469}', '\u{200D}']),
        4 => *t.pick(&['\n', '\t', '\r', '\u{1}', '\u{7f}', '\u{1b}', '\u{8}', '\u{c}', '\u{b}']),
        _ => {
            // any scalar value except NUL
            let v = t.range(1, 0x10FFFF) as u32;
            char::from_u32(v).unwrap_or('x')
        }
    }
}

pub fn gen_string(t: &mut Tape) -> String {
    match t.weighted(&[5, 4, 6]) {
        0 => (*t.pick(&["", "a", "foo", "hello world", "value", "x y z"])).to_string(),
        1 => (*t.pick(&SIGNIFICANT)).to_string(),
        _ => {
            let n = t.choice(13);
            (0..n).map(|_| gen_char(t)).collect()
        }
    }
}

pub fn gen_key(t: &mut Tape, used: &[(String, GVal)]) -> String {
    for _ in 0..4 {
        let k = match t.weighted(&[8, 3, 1]) {
            0 => (*t.pick(&KEYS_PLAIN)).to_string(),
            1 => (*t.pick(&KEYS_ODD)).to_string(),
            _ => {
                let n = 1 + t.choice(6);
                (0..n).map(|_| gen_char(t)).collect()
            }
        };
        if !used.iter().any(|(u, _)| *u == k) {
            return k;
        }
    }
    // fall back to a fresh plain key (keys are unique within a tuple: the VM merges duplicates)
    let mut i = used.len();
    loop {
        let k = format!("f{}", i);
        if !used.iter().any(|(u, _)| *u == k) {
            return k;
        }
        i += 1;
    }
}

pub fn gen_val(t: &mut Tape, o: &GenOpts, depth: u32) -> GVal {
    let leaf_only = depth >= o.max_depth;
    let k = t.weighted(&[
        if o.null { 2 } else { 0 },
        2,
        5,
        if o.floats { 3 } else { 0 },
        7,
        if leaf_only { 0 } else { 4 },
        if leaf_only { 0 } else { 5 },
        if o.constraint { 1 } else { 0 },
    ]);
    match k {
        0 => GVal::Null,
        1 => GVal::Bool(t.chance(1, 2)),
        2 => GVal::Int(gen_int(t)),
        3 => GVal::Float(gen_float(t, o.nonfinite)),
        4 => GVal::Str(gen_string(t)),
        5 => {
            let n = t.choice(o.max_width + 1);
            GVal::List((0..n).map(|_| gen_val(t, o, depth + 1)).collect())
        }
        6 => {
            let n = t.choice(o.max_width + 1);
            let mut fs: Vec<(String, GVal)> = vec![];
            for _ in 0..n {
                let k = gen_key(t, &fs);
                let v = gen_val(t, o, depth + 1);
                fs.push((k, v));
            }
            GVal::Tuple(fs)
        }
        _ => GVal::Constraint,
    }
}

impl GVal {
    pub fn to_val(&self) -> Rc<Val> {
        Rc::new(match self {
            GVal::Null => Val::Empty,
            GVal::Bool(b) => Val::Boolean(*b),
            GVal::Int(i) => Val::Int(*i),
            GVal::Float(f) => Val::Float(*f),
            GVal::Str(s) => Val::Str(s.as_str().into()),
            GVal::List(l) => Val::List(l.iter().map(|v| v.to_val()).collect()),
            GVal::Tuple(fs) => Val::Tuple(fs.iter().map(|(k, v)| (k.as_str().into(), v.to_val())).collect()),
            GVal::Constraint => Val::Constraint(ConstraintVal {
                arms: vec![ConstraintValArm::Range(ConstraintBound::Int(Some(1), Some(5)))],
            }),
        })
    }

    pub fn from_val(v: &Val) -> GVal {
        match v {
            Val::Empty => GVal::Null,
            Val::Boolean(b) => GVal::Bool(*b),
            Val::Int(i) => GVal::Int(*i),
            Val::Float(f) => GVal::Float(*f),
            Val::Str(s) => GVal::Str(s.to_string()),
            Val::List(l) => GVal::List(l.iter().map(|e| GVal::from_val(e)).collect()),
            Val::Tuple(t) => GVal::Tuple(t.iter().map(|(k, v)| (k.to_string(), GVal::from_val(v))).collect()),
            Val::Env(t) => GVal::Tuple(t.iter().map(|(k, v)| (k.to_string(), GVal::Str(v.to_string()))).collect()),
            Val::Constraint(_) => GVal::Constraint,
        }
    }

    /// UCG source literal for the value, when one exists.
    pub fn to_ucg(&self) -> Option<String> {
        Some(match self {
            GVal::Null => "NULL".into(),
            GVal::Bool(b) => format!("{}", b),
            GVal::Int(i) => {
                if *i >= 0 {
                    format!("{}", i)
                } else if *i == i64::MIN {
                    "(0 - 9223372036854775807 - 1)".into()
                } else {
                    format!("(0 - {})", -i)
                }
            }
            GVal::Float(f) => {
                if !f.is_finite() || (*f == 0.0 && f.is_sign_negative()) {
                    return None;
                }
                let a = f.abs();
                let mut s = format!("{}", a);
                if !s.contains('.') {
                    s.push_str(".0");
                }
                if *f < 0.0 {
                    format!("(0.0 - {})", s)
                } else {
                    s
                }
            }
            GVal::Str(s) => crate::reflex::quote(s),
            GVal::List(l) => {
                let mut parts = vec![];
                for e in l {
                    parts.push(e.to_ucg()?);
                }
                format!("[{}]", parts.join(", "))
            }
            GVal::Tuple(fs) => {
                let mut parts = vec![];
                for (k, v) in fs {
                    parts.push(format!("{} = {}", crate::reflex::quote(k), v.to_ucg()?));
                }
                format!("{{{}}}", parts.join(", "))
            }
            GVal::Constraint => return None,
        })
    }

    /// generator-independent JSON encoding (replay files)
    pub fn to_json(&self) -> serde_json::Value {
        use serde_json::json;
        match self {
            GVal::Null => serde_json::Value::Null,
            GVal::Bool(b) => json!(b),
            GVal::Int(i) => json!({"i": i.to_string()}),
            GVal::Float(f) => json!({"f": format!("{:016x}", f.to_bits())}),
            GVal::Str(s) => json!(s),
            GVal::List(l) => serde_json::Value::Array(l.iter().map(|e| e.to_json()).collect()),
            GVal::Tuple(fs) => json!({"t": fs.iter().map(|(k, v)| json!([k, v.to_json()])).collect::<Vec<_>>()}),
            GVal::Constraint => json!({"c": 1}),
        }
    }

    pub fn from_json(j: &serde_json::Value) -> Option<GVal> {
        use serde_json::Value as J;
        Some(match j {
            J::Null => GVal::Null,
            J::Bool(b) => GVal::Bool(*b),
            J::String(s) => GVal::Str(s.clone()),
            J::Array(a) => GVal::List(a.iter().map(GVal::from_json).collect::<Option<Vec<_>>>()?),
            J::Object(m) => {
                if let Some(i) = m.get("i") {
                    GVal::Int(i.as_str()?.parse().ok()?)
                } else if let Some(f) = m.get("f") {
                    GVal::Float(f64::from_bits(u64::from_str_radix(f.as_str()?, 16).ok()?))
                } else if let Some(t) = m.get("t") {
                    let mut fs = vec![];
                    for kv in t.as_array()? {
                        fs.push((kv.get(0)?.as_str()?.to_string(), GVal::from_json(kv.get(1)?)?));
                    }
                    GVal::Tuple(fs)
                } else if m.contains_key("c") {
                    GVal::Constraint
                } else {
                    return None;
                }
            }
            J::Number(_) => return None,
        })
    }

    pub fn show(&self) -> String {
        match self {
            GVal::Null => "NULL".into(),
            GVal::Bool(b) => format!("{}", b),
            GVal::Int(i) => format!("{}", i),
            GVal::Float(f) => format!("{:?}f", f),
            GVal::Str(s) => format!("{:?}", s),
            GVal::List(l) => format!("[{}]", l.iter().map(|e| e.show()).collect::<Vec<_>>().join(", ")),
            GVal::Tuple(fs) => format!(
                "{{{}}}",
                fs.iter().map(|(k, v)| format!("{:?} = {}", k, v.show())).collect::<Vec<_>>().join(", ")
            ),
            GVal::Constraint => "<constraint in 1..5>".into(),
        }
    }

    pub fn any<F: Fn(&GVal) -> bool + Copy>(&self, f: F) -> bool {
        if f(self) {
            return true;
        }
        match self {
            GVal::List(l) => l.iter().any(|e| e.any(f)),
            GVal::Tuple(fs) => fs.iter().any(|(_, v)| v.any(f)),
            _ => false,
        }
    }

    pub fn any_key<F: Fn(&str) -> bool + Copy>(&self, f: F) -> bool {
        match self {
            GVal::List(l) => l.iter().any(|e| e.any_key(f)),
            GVal::Tuple(fs) => fs.iter().any(|(k, v)| f(k) || v.any_key(f)),
            _ => false,
        }
    }

    pub fn depth(&self) -> u32 {
        match self {
            GVal::List(l) => 1 + l.iter().map(|e| e.depth()).max().unwrap_or(0),
            GVal::Tuple(fs) => 1 + fs.iter().map(|(_, v)| v.depth()).max().unwrap_or(0),
            _ => 0,
        }
    }
}
