//! Running the real `ucg` binary with a controlled cwd / environment / HOME.

use std::path::{Path, PathBuf};
use std::process::{Command, Stdio};
use std::time::{Duration, Instant};

pub fn ucg_bin() -> PathBuf {
    if let Ok(p) = std::env::var("VERIF_UCG_BIN") {
        return PathBuf::from(p);
    }
    crate::known::verif_root().join("target/ucgbin/release/ucg")
}

#[derive(Debug, Clone)]
pub struct RunOut {
    /// exit code, None when killed by a signal
    pub code: Option<i32>,
    pub signal: Option<i32>,
    pub stdout: String,
    pub stderr: String,
    pub timed_out: bool,
    pub wall: Duration,
}

impl RunOut {
    pub fn describe(&self) -> String {
        if self.timed_out {
            return "timed out".into();
        }
        match (self.code, self.signal) {
            (Some(c), _) => format!("exit {}", c),
            (None, Some(s)) => format!("signal {}", s),
            _ => "unknown".into(),
        }
    }
}

pub struct Cmd<'a> {
    pub args: Vec<String>,
    pub cwd: &'a Path,
    pub env: Vec<(String, String)>,
    pub home: &'a Path,
    pub timeout: Duration,
    pub stdin: Option<Vec<u8>>,
}

static SEQ: std::sync::atomic::AtomicU64 = std::sync::atomic::AtomicU64::new(0);

/// Run `ucg <args>`; the environment is cleared except for `env` + HOME.
pub fn run_ucg(c: &Cmd) -> RunOut {
    run_program(&ucg_bin(), c)
}

pub fn run_program(program: &Path, c: &Cmd) -> RunOut {
    let n = SEQ.fetch_add(1, std::sync::atomic::Ordering::Relaxed);
    let io_dir = crate::ucgrun::scratch_root().join("io");
    let _ = std::fs::create_dir_all(&io_dir);
    let out_p = io_dir.join(format!("{}.out", n));
    let err_p = io_dir.join(format!("{}.err", n));
    let in_p = io_dir.join(format!("{}.in", n));
    let out_f = std::fs::File::create(&out_p).expect("scratch stdout");
    let err_f = std::fs::File::create(&err_p).expect("scratch stderr");
    let mut cmd = Command::new(program);
    cmd.args(&c.args)
        .current_dir(c.cwd)
        .env_clear()
        .env("HOME", c.home)
        .env("RUST_BACKTRACE", "0")
        .stdout(Stdio::from(out_f))
        .stderr(Stdio::from(err_f));
    for (k, v) in &c.env {
        cmd.env(k, v);
    }
    match &c.stdin {
        Some(bytes) => {
            std::fs::write(&in_p, bytes).expect("scratch stdin");
            cmd.stdin(Stdio::from(std::fs::File::open(&in_p).expect("scratch stdin open")));
        }
        None => {
            cmd.stdin(Stdio::null());
        }
    }
    let start = Instant::now();
    let mut child = match cmd.spawn() {
        Ok(ch) => ch,
        Err(e) => panic!("harness: cannot run {}: {}", program.display(), e),
    };
    let mut timed_out = false;
    let status = loop {
        match child.try_wait() {
            Ok(Some(st)) => break Some(st),
            Ok(None) => {
                if start.elapsed() > c.timeout {
                    let _ = child.kill();
                    let _ = child.wait();
                    timed_out = true;
                    break None;
                }
                let el = start.elapsed();
                std::thread::sleep(if el < Duration::from_millis(20) {
                    Duration::from_micros(300)
                } else if el < Duration::from_millis(500) {
                    Duration::from_millis(2)
                } else {
                    Duration::from_millis(20)
                });
            }
            Err(_) => break None,
        }
    };
    let wall = start.elapsed();
    let stdout = String::from_utf8_lossy(&std::fs::read(&out_p).unwrap_or_default()).into_owned();
    let stderr = String::from_utf8_lossy(&std::fs::read(&err_p).unwrap_or_default()).into_owned();
    let _ = std::fs::remove_file(&out_p);
    let _ = std::fs::remove_file(&err_p);
    let _ = std::fs::remove_file(&in_p);
    use std::os::unix::process::ExitStatusExt;
    RunOut {
        code: status.and_then(|s| s.code()),
        signal: status.and_then(|s| s.signal()),
        stdout,
        stderr,
        timed_out,
        wall,
    }
}

/// Recursively list files under `dir` relative to it, sorted.
pub fn list_files(dir: &Path) -> Vec<PathBuf> {
    fn walk(base: &Path, d: &Path, out: &mut Vec<PathBuf>) {
        if let Ok(rd) = std::fs::read_dir(d) {
            for e in rd.flatten() {
                let p = e.path();
                if p.is_dir() {
                    walk(base, &p, out);
                } else if let Ok(r) = p.strip_prefix(base) {
                    out.push(r.to_path_buf());
                }
            }
        }
    }
    let mut out = vec![];
    walk(dir, dir, &mut out);
    out.sort();
    out
}

/// Feed `script` to `ucg repl` on stdin (one statement per line, as a user would type it).
/// Returns stdout and stderr merged line-wise is not possible; both are returned.
pub fn run_repl(script: &str, env: Vec<(String, String)>, strict: bool, cwd: &Path, home: &Path) -> RunOut {
    // through a shell so that stdout and stderr arrive interleaved as the user would see them
    let mut args: Vec<String> = vec!["-c".into(), "exec \"$0\" \"$@\" 2>&1".into(), ucg_bin().to_string_lossy().into_owned()];
    if !strict {
        args.push("--no-strict".into());
    }
    args.push("repl".into());
    run_program(Path::new("/bin/sh"), &Cmd { args, cwd, env, home, timeout: Duration::from_secs(60), stdin: Some(script.as_bytes().to_vec()) })
}

/// The lines a repl session printed for the user's statements (history / EOF chatter removed).
pub fn repl_lines(r: &RunOut) -> Vec<String> {
    let mut out = vec![];
    for l in r.stdout.lines() {
        let low = l.to_lowercase();
        if low.contains("history") || low.contains("eof") || l.trim().is_empty() {
            continue;
        }
        out.push(l.to_string());
    }
    out
}
