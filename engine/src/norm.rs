//! Position-free rendering of the ucg AST as an S-expression string.  Two
//! programs are "the same program" (C05, C11) when their normal forms are equal.
//! Field-name tokens are compared by text only (quoting is not recorded).

use ucglib::ast::*;

pub struct NormOpts {
    /// drop `Grouped` nodes (C02 compares grouping, not redundant parentheses)
    pub strip_grouped: bool,
}

pub fn op_name(k: &BinaryExprType) -> &'static str {
    match k {
        BinaryExprType::Add => "+",
        BinaryExprType::Sub => "-",
        BinaryExprType::Mul => "*",
        BinaryExprType::Div => "/",
        BinaryExprType::Mod => "%%",
        BinaryExprType::AND => "&&",
        BinaryExprType::OR => "||",
        BinaryExprType::Equal => "==",
        BinaryExprType::GT => ">",
        BinaryExprType::LT => "<",
        BinaryExprType::NotEqual => "!=",
        BinaryExprType::GTEqual => ">=",
        BinaryExprType::LTEqual => "<=",
        BinaryExprType::REMatch => "~",
        BinaryExprType::NotREMatch => "!~",
        BinaryExprType::IN => "in",
        BinaryExprType::IS => "is",
        BinaryExprType::DOT => ".",
    }
}

fn qs(s: &str) -> String {
    format!("{:?}", s)
}

pub fn norm_value(v: &Value, o: &NormOpts, out: &mut String) {
    match v {
        Value::Empty(_) => out.push_str("NULL"),
        Value::Boolean(b) => out.push_str(if b.val { "true" } else { "false" }),
        Value::Int(i) => out.push_str(&format!("(int {})", i.val)),
        Value::Float(f) => out.push_str(&format!("(float {:016x})", f.val.to_bits())),
        Value::Str(s) => out.push_str(&format!("(str {})", qs(&s.val))),
        Value::Symbol(s) => out.push_str(&format!("(sym {})", qs(&s.val))),
        Value::Tuple(fs) => {
            out.push_str("(tuple");
            norm_fields(&fs.val, o, out);
            out.push(')');
        }
        Value::List(l) => {
            out.push_str("(list");
            for e in &l.elems {
                out.push(' ');
                norm_expr(e, o, out);
            }
            out.push(')');
        }
    }
}

fn norm_fields(fs: &FieldList, o: &NormOpts, out: &mut String) {
    for (tok, constraint, e) in fs {
        out.push_str(" (field ");
        out.push_str(&qs(&tok.fragment));
        if let Some(c) = constraint {
            out.push_str(" :: ");
            norm_expr(c, o, out);
        }
        out.push(' ');
        norm_expr(e, o, out);
        out.push(')');
    }
}

pub fn norm_expr(e: &Expression, o: &NormOpts, out: &mut String) {
    match e {
        Expression::Simple(v) => norm_value(v, o, out),
        Expression::Not(d) => {
            out.push_str("(not ");
            norm_expr(&d.expr, o, out);
            out.push(')');
        }
        Expression::Binary(d) => {
            out.push('(');
            out.push_str(op_name(&d.kind));
            out.push(' ');
            norm_expr(&d.left, o, out);
            out.push(' ');
            norm_expr(&d.right, o, out);
            out.push(')');
        }
        Expression::Copy(d) => {
            out.push_str("(copy ");
            norm_value(&d.selector, o, out);
            norm_fields(&d.fields, o, out);
            out.push(')');
        }
        Expression::Range(d) => {
            out.push_str("(range ");
            norm_expr(&d.start, o, out);
            out.push(' ');
            match &d.step {
                Some(s) => norm_expr(s, o, out),
                None => out.push('_'),
            }
            out.push(' ');
            norm_expr(&d.end, o, out);
            out.push(')');
        }
        Expression::Grouped(inner, _) => {
            if o.strip_grouped {
                norm_expr(inner, o, out);
            } else {
                out.push_str("(group ");
                norm_expr(inner, o, out);
                out.push(')');
            }
        }
        Expression::Format(d) => {
            out.push_str("(format ");
            out.push_str(&qs(&d.template));
            match &d.args {
                FormatArgs::List(es) => {
                    out.push_str(" (args");
                    for e in es {
                        out.push(' ');
                        norm_expr(e, o, out);
                    }
                    out.push(')');
                }
                FormatArgs::Single(e) => {
                    out.push_str(" (single ");
                    norm_expr(e, o, out);
                    out.push(')');
                }
            }
            out.push(')');
        }
        Expression::Include(d) => {
            out.push_str(&format!(
                "(include {} {})",
                qs(&d.typ.fragment),
                qs(&d.path.fragment)
            ));
        }
        Expression::Import(d) => {
            out.push_str(&format!("(import {})", qs(&d.path.fragment)));
        }
        Expression::Call(d) => {
            out.push_str("(call ");
            norm_value(&d.funcref, o, out);
            for a in &d.arglist {
                out.push(' ');
                norm_expr(a, o, out);
            }
            out.push(')');
        }
        Expression::Cast(d) => {
            out.push_str(&format!("(cast {} ", d.cast_type));
            norm_expr(&d.target, o, out);
            out.push(')');
        }
        Expression::Func(d) => {
            out.push_str("(func (");
            for (i, (name, c)) in d.argdefs.iter().enumerate() {
                if i > 0 {
                    out.push(' ');
                }
                out.push_str(&qs(&name.val));
                if let Some(c) = c {
                    out.push_str(" :: ");
                    norm_expr(c, o, out);
                }
            }
            out.push_str(") ");
            norm_expr(&d.fields, o, out);
            out.push(')');
        }
        Expression::Select(d) => {
            out.push_str("(select ");
            norm_expr(&d.val, o, out);
            out.push(' ');
            match &d.default {
                Some(e) => norm_expr(e, o, out),
                None => out.push('_'),
            }
            norm_fields(&d.tuple, o, out);
            out.push(')');
        }
        Expression::FuncOp(d) => match d {
            FuncOpDef::Map(m) => {
                out.push_str("(map ");
                norm_expr(&m.func, o, out);
                out.push(' ');
                norm_expr(&m.target, o, out);
                out.push(')');
            }
            FuncOpDef::Filter(m) => {
                out.push_str("(filter ");
                norm_expr(&m.func, o, out);
                out.push(' ');
                norm_expr(&m.target, o, out);
                out.push(')');
            }
            FuncOpDef::Reduce(r) => {
                out.push_str("(reduce ");
                norm_expr(&r.func, o, out);
                out.push(' ');
                norm_expr(&r.acc, o, out);
                out.push(' ');
                norm_expr(&r.target, o, out);
                out.push(')');
            }
        },
        Expression::Module(d) => {
            out.push_str("(module (params");
            norm_fields(&d.arg_set, o, out);
            out.push_str(") ");
            match &d.out_expr {
                Some(e) => norm_expr(e, o, out),
                None => out.push('_'),
            }
            if let Some(c) = &d.out_constraint {
                out.push_str(" :: ");
                norm_expr(c, o, out);
            }
            out.push_str(" (body");
            for s in &d.statements {
                out.push(' ');
                norm_stmt(s, o, out);
            }
            out.push_str("))");
        }
        Expression::Fail(d) => {
            out.push_str("(fail ");
            norm_expr(&d.message, o, out);
            out.push(')');
        }
        Expression::Debug(d) => {
            out.push_str("(trace ");
            norm_expr(&d.expr, o, out);
            out.push(')');
        }
        Expression::Convert(d) => {
            out.push_str(&format!("(convert {} ", qs(&d.converter.fragment)));
            norm_expr(&d.target, o, out);
            out.push(')');
        }
        Expression::Constraint(d) => {
            out.push_str("(constraint");
            for a in &d.arms {
                match a {
                    ConstraintArm::Range(r) => {
                        out.push_str(" (in ");
                        match &r.start {
                            Some(e) => norm_expr(e, o, out),
                            None => out.push('_'),
                        }
                        out.push(' ');
                        match &r.end {
                            Some(e) => norm_expr(e, o, out),
                            None => out.push('_'),
                        }
                        out.push(')');
                    }
                    ConstraintArm::Shape(e) => {
                        out.push_str(" (shape ");
                        norm_expr(e, o, out);
                        out.push(')');
                    }
                }
            }
            out.push(')');
        }
    }
}

pub fn norm_stmt(s: &Statement, o: &NormOpts, out: &mut String) {
    match s {
        Statement::Expression(e) => {
            out.push_str("(expr ");
            norm_expr(e, o, out);
            out.push(')');
        }
        Statement::Let(d) => {
            out.push_str(&format!("(let {}", qs(&d.name.fragment)));
            if let Some(c) = &d.constraint {
                out.push_str(" :: ");
                norm_expr(c, o, out);
            }
            out.push(' ');
            norm_expr(&d.value, o, out);
            out.push(')');
        }
        Statement::Constraint(d) => {
            out.push_str(&format!("(constraintdef {} ", qs(&d.name.fragment)));
            norm_expr(&d.value, o, out);
            out.push(')');
        }
        Statement::Assert(_, e) => {
            out.push_str("(assert ");
            norm_expr(e, o, out);
            out.push(')');
        }
        Statement::Output(_, t, e) => {
            out.push_str(&format!("(out {} ", qs(&t.fragment)));
            norm_expr(e, o, out);
            out.push(')');
        }
    }
}

pub fn norm_program(stmts: &[Statement], strip_grouped: bool) -> Vec<String> {
    let o = NormOpts { strip_grouped };
    stmts
        .iter()
        .map(|s| {
            let mut out = String::new();
            norm_stmt(s, &o, &mut out);
            out
        })
        .collect()
}

pub fn norm_expression(e: &Expression, strip_grouped: bool) -> String {
    let o = NormOpts { strip_grouped };
    let mut out = String::new();
    norm_expr(e, &o, &mut out);
    out
}

/// Parse with the library parser; Err carries the message.
pub fn parse_program(src: &str) -> Result<Vec<Statement>, String> {
    ucglib::parse::parse(ucglib::iter::OffsetStrIter::new(src), None).map_err(|e| format!("{}", e))
}
