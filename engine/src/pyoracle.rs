//! Client of oracles/decode.py (independent JSON / YAML 1.2 / TOML / XML decoders).

use serde_json::{json, Value as J};
use std::io::{BufRead, BufReader, Write};
use std::process::{Child, ChildStdin, ChildStdout, Command, Stdio};

#[derive(Clone, Debug, PartialEq)]
pub enum DTree {
    Null,
    Bool(bool),
    /// decimal text of an arbitrary-precision integer
    Int(String),
    Float(f64),
    Str(String),
    List(Vec<DTree>),
    /// keys are trees themselves (YAML keys may resolve to non-strings)
    Map(Vec<(DTree, DTree)>),
    Datetime(String),
    Docs(Vec<DTree>),
}

pub struct PyOracle {
    child: Child,
    stdin: ChildStdin,
    stdout: BufReader<ChildStdout>,
    next_id: u64,
}

fn find_python() -> Vec<String> {
    let mut c = vec![];
    if let Ok(p) = std::env::var("VERIF_PYTHON") {
        c.push(p);
    }
    c.push("python3".to_string());
    if let Ok(rd) = std::fs::read_dir("/root/.pyenv/versions") {
        for e in rd.flatten() {
            c.push(format!("{}/bin/python3", e.path().display()));
        }
    }
    c.push("/usr/bin/python3".to_string());
    c
}

impl PyOracle {
    pub fn start() -> Result<PyOracle, String> {
        let script = crate::known::verif_root().join("oracles/decode.py");
        let mut last = String::new();
        for py in find_python() {
            let spawned = Command::new(&py)
                .arg(&script)
                .stdin(Stdio::piped())
                .stdout(Stdio::piped())
                .stderr(Stdio::null())
                .spawn();
            let mut child = match spawned {
                Ok(c) => c,
                Err(e) => {
                    last = format!("{}: {}", py, e);
                    continue;
                }
            };
            let stdin = child.stdin.take().unwrap();
            let mut stdout = BufReader::new(child.stdout.take().unwrap());
            let mut line = String::new();
            if stdout.read_line(&mut line).unwrap_or(0) == 0 {
                let _ = child.kill();
                let _ = child.wait();
                last = format!("{}: decoder service did not start", py);
                continue;
            }
            let j: J = serde_json::from_str(&line).unwrap_or(J::Null);
            if j.get("ready") == Some(&J::Bool(true))
                && j.get("yaml") == Some(&J::Bool(true))
                && j.get("toml") == Some(&J::Bool(true))
            {
                return Ok(PyOracle {
                    child,
                    stdin,
                    stdout,
                    next_id: 1,
                });
            }
            let _ = child.kill();
            let _ = child.wait();
            last = format!("{}: decoder service lacks yaml/toml: {}", py, line.trim());
        }
        Err(last)
    }

    /// Ok(Ok(tree)) decoded; Ok(Err(msg)) the decoder rejects the text; Err = service trouble.
    pub fn decode(&mut self, fmt: &str, data: &[u8]) -> Result<Result<J, String>, String> {
        use base64::Engine;
        let id = self.next_id;
        self.next_id += 1;
        let req = json!({"id": id, "fmt": fmt, "data_b64": base64::engine::general_purpose::STANDARD.encode(data)});
        writeln!(self.stdin, "{}", req).map_err(|e| format!("decoder service write: {}", e))?;
        self.stdin.flush().map_err(|e| format!("decoder service flush: {}", e))?;
        let mut line = String::new();
        let n = self
            .stdout
            .read_line(&mut line)
            .map_err(|e| format!("decoder service read: {}", e))?;
        if n == 0 {
            return Err("decoder service exited".into());
        }
        let j: J = serde_json::from_str(&line).map_err(|e| format!("decoder reply: {}", e))?;
        if j.get("id").and_then(|v| v.as_u64()) != Some(id) {
            return Err("decoder reply id mismatch".into());
        }
        if j.get("ok") == Some(&J::Bool(true)) {
            Ok(Ok(j.get("tree").cloned().unwrap_or(J::Null)))
        } else {
            Ok(Err(j
                .get("error")
                .and_then(|e| e.as_str())
                .unwrap_or("?")
                .to_string()))
        }
    }

    pub fn decode_tree(&mut self, fmt: &str, data: &[u8]) -> Result<Result<DTree, String>, String> {
        match self.decode(fmt, data)? {
            Ok(j) => match to_dtree(&j) {
                Some(t) => Ok(Ok(t)),
                None => Err(format!("decoder reply has an unknown shape: {}", j)),
            },
            Err(e) => Ok(Err(e)),
        }
    }
}

impl Drop for PyOracle {
    fn drop(&mut self) {
        let _ = self.child.kill();
        let _ = self.child.wait();
    }
}

pub fn parse_hex_float(s: &str) -> Option<f64> {
    match s {
        "nan" => return Some(f64::NAN),
        "inf" => return Some(f64::INFINITY),
        "-inf" => return Some(f64::NEG_INFINITY),
        _ => {}
    }
    // python float.hex(): [-]0x1.<hex>p[+-]<exp>  or  [-]0x0.0p+0
    let (neg, rest) = match s.strip_prefix('-') {
        Some(r) => (true, r),
        None => (false, s),
    };
    let rest = rest.strip_prefix("0x")?;
    let (mant, exp) = rest.split_once('p')?;
    let exp: i32 = exp.parse().ok()?;
    let (ip, fp) = match mant.split_once('.') {
        Some((a, b)) => (a, b),
        None => (mant, ""),
    };
    let mut m: f64 = u64::from_str_radix(ip, 16).ok()? as f64;
    let mut scale = 1.0f64 / 16.0;
    for c in fp.chars() {
        m += c.to_digit(16)? as f64 * scale;
        scale /= 16.0;
    }
    let v = m * 2f64.powi(exp);
    Some(if neg { -v } else { v })
}

pub fn to_dtree(j: &J) -> Option<DTree> {
    let t = j.get("t")?.as_str()?;
    Some(match t {
        "null" => DTree::Null,
        "bool" => DTree::Bool(j.get("v")?.as_bool()?),
        "int" => DTree::Int(j.get("v")?.as_str()?.to_string()),
        "float" => DTree::Float(parse_hex_float(j.get("v")?.as_str()?)?),
        "str" => DTree::Str(j.get("v")?.as_str()?.to_string()),
        "datetime" => DTree::Datetime(j.get("v")?.as_str()?.to_string()),
        "list" => DTree::List(
            j.get("v")?
                .as_array()?
                .iter()
                .map(to_dtree)
                .collect::<Option<Vec<_>>>()?,
        ),
        "docs" => DTree::Docs(
            j.get("v")?
                .as_array()?
                .iter()
                .map(to_dtree)
                .collect::<Option<Vec<_>>>()?,
        ),
        "map" => {
            let mut out = vec![];
            for kv in j.get("v")?.as_array()? {
                let kv = kv.as_array()?;
                let k = &kv[0];
                let key = if k.is_string() {
                    DTree::Str(k.as_str()?.to_string())
                } else {
                    to_dtree(k)?
                };
                out.push((key, to_dtree(&kv[1])?));
            }
            DTree::Map(out)
        }
        _ => return None,
    })
}

pub fn show_dtree(t: &DTree) -> String {
    match t {
        DTree::Null => "null".into(),
        DTree::Bool(b) => format!("{}", b),
        DTree::Int(s) => s.clone(),
        DTree::Float(f) => format!("{:?}f", f),
        DTree::Str(s) => format!("{:?}", s),
        DTree::Datetime(s) => format!("datetime({})", s),
        DTree::List(v) => format!("[{}]", v.iter().map(show_dtree).collect::<Vec<_>>().join(", ")),
        DTree::Docs(v) => format!("docs[{}]", v.iter().map(show_dtree).collect::<Vec<_>>().join(" --- ")),
        DTree::Map(v) => format!(
            "{{{}}}",
            v.iter()
                .map(|(k, v)| format!("{}: {}", show_dtree(k), show_dtree(v)))
                .collect::<Vec<_>>()
                .join(", ")
        ),
    }
}
