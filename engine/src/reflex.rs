//! Reference lexer for ucg source text, written from the lexical grammar in
//! docsite/site/content/reference/grammar.md and types.md: maximal munch,
//! operators longest first, barewords `[A-Za-z][A-Za-z0-9_-]*`, digit runs,
//! double-quoted strings with `\n \r \t` and `\<char>` escapes, `//` comments.
//! Independent of ucglib's tokenizer.

#[derive(Clone, Debug, PartialEq, Eq, Hash)]
pub enum Kind {
    Punct,
    Bareword,
    Digit,
    Quoted,
    Boolean,
    Empty,
    Comment,
}

#[derive(Clone, Debug, PartialEq, Eq)]
pub struct Tok {
    pub kind: Kind,
    /// token text: for strings the decoded value, for comments the text after `//`
    pub text: String,
    /// exact source slice
    pub src: String,
    pub offset: usize,
    pub line: usize,
    /// 1-based column in bytes
    pub col_bytes: usize,
    /// 1-based column in chars
    pub col_chars: usize,
    /// true when the property makes no claim about how this token ends
    /// (boolean / NULL literal immediately followed by a word character)
    pub unclaimed: bool,
}

pub const PUNCT2: [&str; 11] = [
    "==", "=>", ">=", "<=", "..", "::", "&&", "||", "%%", "!=", "!~",
];
pub const PUNCT1: [&str; 20] = [
    ",", "{", "}", "(", ")", ".", "|", "+", "-", "*", "/", "%", "~", ">", "<", "=", ";", ":", "[",
    "]",
];

pub const KEYWORDS: [&str; 21] = [
    "let",
    "import",
    "include",
    "as",
    "func",
    "select",
    "map",
    "reduce",
    "filter",
    "module",
    "mod",
    "out",
    "constraint",
    "convert",
    "assert",
    "fail",
    "TRACE",
    "in",
    "is",
    "not",
    "self",
];

fn is_ws(b: u8) -> bool {
    b == b' ' || b == b'\t' || b == b'\n' || b == b'\r'
}

fn is_word(b: u8) -> bool {
    b.is_ascii_alphanumeric() || b == b'_' || b == b'-'
}

#[derive(Debug, Clone, PartialEq)]
pub enum LexError {
    /// byte offset of a character no token can start with
    BadChar(usize),
    UnterminatedString(usize),
}

/// Lex `src`; comments are returned in the stream (kind Comment).
pub fn lex(src: &str) -> Result<Vec<Tok>, LexError> {
    let b = src.as_bytes();
    let mut out = vec![];
    let mut i = 0usize;
    let mut line = 1usize;
    let mut line_start = 0usize;
    while i < b.len() {
        let c = b[i];
        if is_ws(c) {
            if c == b'\n' {
                line += 1;
                line_start = i + 1;
            }
            i += 1;
            continue;
        }
        let start = i;
        let col_bytes = start - line_start + 1;
        let col_chars = src[line_start..start].chars().count() + 1;
        let mut unclaimed = false;
        let tline = line;
        let (kind, text): (Kind, String);
        if c == b'/' && i + 1 < b.len() && b[i + 1] == b'/' {
            // comment to end of line (LF or CRLF excluded)
            let mut j = i + 2;
            while j < b.len() && b[j] != b'\n' && !(b[j] == b'\r' && j + 1 < b.len() && b[j + 1] == b'\n') {
                j += 1;
            }
            kind = Kind::Comment;
            text = src[i + 2..j].to_string();
            i = j;
        } else if c == b'"' {
            let mut j = i + 1;
            let mut val: Vec<u8> = vec![];
            let mut closed = false;
            while j < b.len() {
                let d = b[j];
                if d == b'\\' {
                    if j + 1 >= b.len() {
                        break;
                    }
                    let e = b[j + 1];
                    match e {
                        b'n' => val.push(b'\n'),
                        b'r' => val.push(b'\r'),
                        b't' => val.push(b'\t'),
                        _ => {
                            // the whole escaped character stands for itself
                            let ch_len = utf8_len(e);
                            val.extend_from_slice(&b[j + 1..(j + 1 + ch_len).min(b.len())]);
                            j += ch_len - 1;
                        }
                    }
                    j += 2;
                    continue;
                }
                if d == b'"' {
                    closed = true;
                    j += 1;
                    break;
                }
                if d == b'\n' {
                    line += 1;
                    line_start = j + 1;
                }
                val.push(d);
                j += 1;
            }
            if !closed {
                return Err(LexError::UnterminatedString(start));
            }
            kind = Kind::Quoted;
            text = String::from_utf8(val).unwrap_or_else(|e| String::from_utf8_lossy(e.as_bytes()).into_owned());
            i = j;
        } else if c.is_ascii_digit() {
            let mut j = i;
            while j < b.len() && b[j].is_ascii_digit() {
                j += 1;
            }
            kind = Kind::Digit;
            text = src[i..j].to_string();
            i = j;
        } else if c.is_ascii_alphabetic() {
            let mut j = i;
            while j < b.len() && is_word(b[j]) {
                j += 1;
            }
            let w = &src[i..j];
            // literal words: the implementation recognises a boolean / NULL
            // prefix even when more word characters follow; the property only
            // claims longest match for operators, so that adjacency is unclaimed
            let lit = ["true", "false", "NULL"]
                .iter()
                .find(|l| w.starts_with(**l))
                .copied();
            match lit {
                Some(l) if w.len() == l.len() => {
                    kind = if l == "NULL" { Kind::Empty } else { Kind::Boolean };
                    text = w.to_string();
                    i = j;
                }
                Some(l) => {
                    kind = if l == "NULL" { Kind::Empty } else { Kind::Boolean };
                    text = l.to_string();
                    unclaimed = true;
                    i += l.len();
                }
                None => {
                    kind = Kind::Bareword;
                    text = w.to_string();
                    i = j;
                }
            }
        } else {
            let two = if i + 2 <= b.len() && src.is_char_boundary(i + 2) {
                Some(&src[i..i + 2])
            } else {
                None
            };
            if let Some(p) = two.and_then(|t| PUNCT2.iter().find(|p| **p == t)) {
                kind = Kind::Punct;
                text = p.to_string();
                i += 2;
            } else if let Some(p) = PUNCT1.iter().find(|p| p.as_bytes()[0] == c) {
                kind = Kind::Punct;
                text = p.to_string();
                i += 1;
            } else {
                return Err(LexError::BadChar(start));
            }
        }
        out.push(Tok {
            kind,
            text,
            src: src[start..i].to_string(),
            offset: start,
            line: tline,
            col_bytes,
            col_chars,
            unclaimed,
        });
    }
    Ok(out)
}

fn utf8_len(first: u8) -> usize {
    if first < 0x80 {
        1
    } else if first >> 5 == 0b110 {
        2
    } else if first >> 4 == 0b1110 {
        3
    } else if first >> 3 == 0b11110 {
        4
    } else {
        1
    }
}

/// Would writing `a` immediately followed by `b` still lex as exactly these two tokens?
pub fn can_glue(a: &str, b: &str) -> bool {
    let s = format!("{}{}", a, b);
    match lex(&s) {
        Ok(toks) => {
            toks.len() == 2 && toks[0].src == a && toks[1].src == b && !toks[0].unclaimed && !toks[1].unclaimed
        }
        Err(_) => false,
    }
}

/// Encode a string value as a ucg literal using only `\\` and `\"` escapes.
pub fn quote(s: &str) -> String {
    let mut out = String::with_capacity(s.len() + 2);
    out.push('"');
    for c in s.chars() {
        match c {
            '\\' => out.push_str("\\\\"),
            '"' => out.push_str("\\\""),
            c => out.push(c),
        }
    }
    out.push('"');
    out
}
