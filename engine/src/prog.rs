//! Generator-side AST of UCG programs and its renderers (minimal parentheses
//! from the published precedence table).

#[derive(Clone, Debug, PartialEq, serde::Serialize, serde::Deserialize)]
pub enum Op {
    Add,
    Sub,
    Mul,
    Div,
    Mod,
    And,
    Or,
    Eq,
    Ne,
    Gt,
    Lt,
    Ge,
    Le,
    ReMatch,
    ReNotMatch,
    In,
    Is,
}

impl Op {
    pub fn text(&self) -> &'static str {
        match self {
            Op::Add => "+",
            Op::Sub => "-",
            Op::Mul => "*",
            Op::Div => "/",
            Op::Mod => "%%",
            Op::And => "&&",
            Op::Or => "||",
            Op::Eq => "==",
            Op::Ne => "!=",
            Op::Gt => ">",
            Op::Lt => "<",
            Op::Ge => ">=",
            Op::Le => "<=",
            Op::ReMatch => "~",
            Op::ReNotMatch => "!~",
            Op::In => "in",
            Op::Is => "is",
        }
    }
    /// level in the table of reference/expressions.md (higher binds tighter)
    pub fn level(&self) -> u32 {
        match self {
            Op::Eq | Op::Ne | Op::Gt | Op::Lt | Op::Ge | Op::Le | Op::ReMatch | Op::ReNotMatch => 1,
            Op::In | Op::Is => 2,
            Op::Add | Op::Sub => 3,
            Op::Mul | Op::Div | Op::Mod => 4,
            Op::And | Op::Or => 5,
        }
    }
}

pub const DOT_LEVEL: u32 = 6;

#[derive(Clone, Debug, PartialEq, serde::Serialize, serde::Deserialize)]
pub enum Sel {
    /// `.name`
    Name(String),
    /// `."name"`
    Quoted(String),
    /// `.0`
    Index(i64),
    /// `.(expr)`
    Expr(Box<E>),
}

#[derive(Clone, Debug, PartialEq, serde::Serialize, serde::Deserialize)]
pub enum Part {
    Lit(String),
    Expr(E),
}

#[derive(Clone, Debug, PartialEq, serde::Serialize, serde::Deserialize)]
pub enum Callee {
    Name(String),
    /// `t.f(args)`
    Field(String, String),
}

#[derive(Clone, Debug, PartialEq, serde::Serialize, serde::Deserialize)]
pub enum E {
    Null,
    Bool(bool),
    Int(i64),   // non-negative in source
    Float(f64), // non-negative, finite
    Str(String),
    Sym(String),
    List(Vec<E>),
    Tuple(Vec<(String, E)>),
    Bin(Op, Box<E>, Box<E>),
    Not(Box<E>),
    Field(Box<E>, Sel),
    Select { val: Box<E>, default: Option<Box<E>>, arms: Vec<(String, E)> },
    Func { params: Vec<String>, body: Box<E> },
    Call { callee: Callee, args: Vec<E> },
    /// `base.path…{fields}` — the base is a name followed by field names
    Copy { base: String, path: Vec<String>, fields: Vec<(String, E)> },
    Module { params: Vec<(String, E)>, out: Option<Box<E>>, body: Vec<Stmt> },
    Map(Box<E>, Box<E>),
    Filter(Box<E>, Box<E>),
    Reduce(Box<E>, Box<E>, Box<E>),
    /// `"a @ b" % (x, y)` — template pieces between placeholders
    FormatList(Vec<String>, Vec<E>),
    /// `"a @{expr} b" % arg`
    FormatExpr(Vec<Part>, Box<E>),
    Range(Box<E>, Option<Box<E>>, Box<E>),
    Cast(String, Box<E>),
    Fail(Box<E>),
    Trace(Box<E>),
}

#[derive(Clone, Debug, PartialEq, serde::Serialize, serde::Deserialize)]
pub enum Stmt {
    Let(String, E),
    Expr(E),
}

pub fn quote(s: &str) -> String {
    crate::reflex::quote(s)
}

fn is_bareword(s: &str) -> bool {
    let mut cs = s.chars();
    match cs.next() {
        Some(c) if c.is_ascii_alphabetic() => {}
        _ => return false,
    }
    s.chars().all(|c| c.is_ascii_alphanumeric() || c == '_' || c == '-')
        && !["true", "false", "NULL"].iter().any(|l| s.starts_with(l))
        && !crate::reflex::KEYWORDS.contains(&s)
}

pub fn field_name(s: &str) -> String {
    if is_bareword(s) {
        s.to_string()
    } else {
        quote(s)
    }
}

pub fn float_lit(f: f64) -> String {
    let mut s = format!("{}", f);
    if !s.contains('.') {
        s.push_str(".0");
    }
    s
}

/// template text: a literal `@` is written `\\@` in source (the string value holds `\@`)
fn template_lit(s: &str) -> String {
    // first the template-level escapes (@ and \), then the string-literal escapes
    let mut t = String::new();
    for c in s.chars() {
        match c {
            '@' => t.push_str("\\@"),
            '\\' => t.push_str("\\\\"),
            c => t.push(c),
        }
    }
    t
}

/// Is the rendered form safe as an operand of a binary operator / selector base?
fn is_prefix_form(e: &E) -> bool {
    matches!(e, E::Not(_) | E::Fail(_) | E::Trace(_) | E::Func { .. } | E::FormatExpr(..))
}

fn level_of(e: &E) -> u32 {
    match e {
        E::Bin(op, ..) => op.level(),
        E::Field(..) => DOT_LEVEL,
        E::Call { callee: Callee::Field(..), .. } => DOT_LEVEL,
        _ => 100,
    }
}

pub struct Renderer {
    pub out: String,
}

impl Renderer {
    pub fn expr(e: &E) -> String {
        let mut r = Renderer { out: String::new() };
        r.e(e);
        r.out
    }

    fn operand(&mut self, e: &E, parent_level: u32, is_right: bool) {
        let lv = level_of(e);
        let need = is_prefix_form(e) || if is_right { lv <= parent_level } else { lv < parent_level };
        if need {
            self.out.push('(');
            self.e(e);
            self.out.push(')');
        } else {
            self.e(e);
        }
    }

    /// operand of a range: simple value or parenthesised
    fn range_operand(&mut self, e: &E) {
        match e {
            E::Int(_) | E::Sym(_) | E::Float(_) | E::Str(_) | E::Null | E::Bool(_) => self.e(e),
            _ => {
                self.out.push('(');
                self.e(e);
                self.out.push(')');
            }
        }
    }

    fn fields(&mut self, fs: &[(String, E)]) {
        for (i, (k, v)) in fs.iter().enumerate() {
            if i > 0 {
                self.out.push_str(", ");
            }
            self.out.push_str(&field_name(k));
            self.out.push_str(" = ");
            self.e(v);
        }
    }

    fn args(&mut self, es: &[E]) {
        for (i, a) in es.iter().enumerate() {
            if i > 0 {
                self.out.push_str(", ");
            }
            self.e(a);
        }
    }

    pub fn e(&mut self, e: &E) {
        match e {
            E::Null => self.out.push_str("NULL"),
            E::Bool(b) => self.out.push_str(if *b { "true" } else { "false" }),
            E::Int(i) => self.out.push_str(&i.to_string()),
            E::Float(f) => self.out.push_str(&float_lit(*f)),
            E::Str(s) => self.out.push_str(&quote(s)),
            E::Sym(s) => self.out.push_str(s),
            E::List(l) => {
                self.out.push('[');
                self.args(l);
                self.out.push(']');
            }
            E::Tuple(fs) => {
                self.out.push('{');
                self.fields(fs);
                self.out.push('}');
            }
            E::Bin(op, l, r) => {
                self.operand(l, op.level(), false);
                self.out.push(' ');
                self.out.push_str(op.text());
                self.out.push(' ');
                self.operand(r, op.level(), true);
            }
            E::Not(x) => {
                self.out.push_str("not ");
                self.e(x);
            }
            E::Field(base, sel) => {
                // the base is the left operand of the `.` operator
                match **base {
                    E::Range(..) | E::Select { .. } | E::Module { .. } | E::Map(..) | E::Filter(..) | E::Reduce(..) | E::Cast(..) | E::FormatList(..) | E::Copy { .. } | E::Call { .. } => {
                        self.out.push('(');
                        self.e(base);
                        self.out.push(')');
                    }
                    _ => self.operand(base, DOT_LEVEL, false),
                }
                match sel {
                    Sel::Name(n) => {
                        self.out.push('.');
                        self.out.push_str(n);
                    }
                    Sel::Quoted(n) => {
                        self.out.push('.');
                        self.out.push_str(&quote(n));
                    }
                    Sel::Index(i) => {
                        // DIGIT . DIGIT would lex as a float literal
                        let after_digit = self.out.ends_with(|c: char| c.is_ascii_digit())
                            && {
                                let t = self.out.trim_end_matches(|c: char| c.is_ascii_digit());
                                t.ends_with('.')
                            };
                        if after_digit {
                            self.out.push_str(&format!(".({})", i));
                        } else {
                            self.out.push_str(&format!(".{}", i));
                        }
                    }
                    Sel::Expr(x) => {
                        self.out.push_str(".(");
                        self.e(x);
                        self.out.push(')');
                    }
                }
            }
            E::Select { val, default, arms } => {
                self.out.push_str("select (");
                self.e(val);
                if let Some(d) = default {
                    self.out.push_str(", ");
                    self.e(d);
                }
                self.out.push_str(") => {");
                for (i, (k, v)) in arms.iter().enumerate() {
                    if i > 0 {
                        self.out.push_str(", ");
                    }
                    if k == "true" || k == "false" {
                        self.out.push_str(k);
                    } else {
                        self.out.push_str(&field_name(k));
                    }
                    self.out.push_str(" = ");
                    self.e(v);
                }
                self.out.push('}');
            }
            E::Func { params, body } => {
                self.out.push_str("func (");
                self.out.push_str(&params.join(", "));
                self.out.push_str(") => ");
                self.e(body);
            }
            E::Call { callee, args } => {
                match callee {
                    Callee::Name(n) => self.out.push_str(n),
                    Callee::Field(t, f) => {
                        self.out.push_str(t);
                        self.out.push('.');
                        self.out.push_str(f);
                    }
                }
                self.out.push('(');
                self.args(args);
                self.out.push(')');
            }
            E::Copy { base, path, fields } => {
                self.out.push_str(base);
                for seg in path {
                    self.out.push('.');
                    self.out.push_str(&field_name(seg));
                }
                self.out.push('{');
                self.fields(fields);
                self.out.push('}');
            }
            E::Module { params, out, body } => {
                self.out.push_str("module {");
                self.fields(params);
                self.out.push_str("} => ");
                if let Some(o) = out {
                    self.out.push('(');
                    self.e(o);
                    self.out.push_str(") ");
                }
                self.out.push_str("{ ");
                for s in body {
                    self.stmt(s);
                    self.out.push(' ');
                }
                self.out.push('}');
            }
            E::Map(f, t) => {
                self.out.push_str("map(");
                self.e(f);
                self.out.push_str(", ");
                self.e(t);
                self.out.push(')');
            }
            E::Filter(f, t) => {
                self.out.push_str("filter(");
                self.e(f);
                self.out.push_str(", ");
                self.e(t);
                self.out.push(')');
            }
            E::Reduce(f, a, t) => {
                self.out.push_str("reduce(");
                self.e(f);
                self.out.push_str(", ");
                self.e(a);
                self.out.push_str(", ");
                self.e(t);
                self.out.push(')');
            }
            E::FormatList(pieces, args) => {
                let tmpl: String = pieces.iter().map(|p| template_lit(p)).collect::<Vec<_>>().join("@");
                self.out.push_str(&quote(&tmpl));
                self.out.push_str(" % (");
                self.args(args);
                self.out.push(')');
            }
            E::FormatExpr(parts, arg) => {
                let mut tmpl = String::new();
                for p in parts {
                    match p {
                        Part::Lit(s) => tmpl.push_str(&template_lit(s)),
                        Part::Expr(x) => {
                            tmpl.push_str("@{");
                            tmpl.push_str(&Renderer::expr(x));
                            tmpl.push('}');
                        }
                    }
                }
                self.out.push_str(&quote(&tmpl));
                self.out.push_str(" % ");
                // a parenthesised argument would make it the list form with one item
                self.e(arg);
            }
            E::Range(a, s, b) => {
                self.range_operand(a);
                self.out.push(':');
                if let Some(s) = s {
                    self.range_operand(s);
                    self.out.push(':');
                }
                self.range_operand(b);
            }
            E::Cast(t, x) => {
                self.out.push_str(t);
                self.out.push('(');
                self.e(x);
                self.out.push(')');
            }
            E::Fail(x) => {
                self.out.push_str("fail ");
                self.e(x);
            }
            E::Trace(x) => {
                self.out.push_str("TRACE ");
                self.e(x);
            }
        }
    }

    pub fn stmt(&mut self, s: &Stmt) {
        match s {
            Stmt::Let(n, e) => {
                self.out.push_str("let ");
                self.out.push_str(n);
                self.out.push_str(" = ");
                self.e(e);
                self.out.push(';');
            }
            Stmt::Expr(e) => {
                self.e(e);
                self.out.push(';');
            }
        }
    }

    pub fn program(stmts: &[Stmt]) -> String {
        let mut r = Renderer { out: String::new() };
        for s in stmts {
            r.stmt(s);
            r.out.push('\n');
        }
        r.out
    }
}
