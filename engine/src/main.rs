mod cli;
mod core;
mod gval;
mod known;
mod lsp;
mod norm;
mod prog;
mod proggen;
mod props;
mod pyoracle;
mod reflex;
mod refsem;
mod runner;
mod tape;
mod ucgrun;

use crate::core::{Property, Tier};
use runner::{Factory, RunConfig};

fn factory_for(id: &str) -> Option<(&'static str, Factory)> {
    Some(match id {
        "C01" => ("C01", |t| Box::new(props::c01::C01::new(t)) as Box<dyn Property>),
        "C02" => ("C02", |t| Box::new(props::c02::C02::new(t)) as Box<dyn Property>),
        "C03" => ("C03", |t| Box::new(props::c03::C03::new(t)) as Box<dyn Property>),
        "C12" => ("C12", |t| Box::new(props::c12::C12::new(t)) as Box<dyn Property>),
        "C04" => ("C04", |t| Box::new(props::c04::C04::new(t)) as Box<dyn Property>),
        "C05" => ("C05", |t| Box::new(props::c05::C05::new(t)) as Box<dyn Property>),
        "C06" => ("C06", |t| Box::new(props::c06::C06::new(t)) as Box<dyn Property>),
        "C07" => ("C07", |t| Box::new(props::c07::C07::new(t)) as Box<dyn Property>),
        "C08" => ("C08", |t| Box::new(props::c08::C08::new(t)) as Box<dyn Property>),
        "C19" => ("C19", |t| Box::new(props::c19::C19::new(t)) as Box<dyn Property>),
        "C20" => ("C20", |t| Box::new(props::c20::C20::new(t)) as Box<dyn Property>),
        "C17" => ("C17", |t| Box::new(props::c17::C17::new(t)) as Box<dyn Property>),
        "C18" => ("C18", |t| Box::new(props::c18::C18::new(t)) as Box<dyn Property>),
        "C16" => ("C16", |t| Box::new(props::c16::C16::new(t)) as Box<dyn Property>),
        "C15" => ("C15", |t| Box::new(props::c15::C15::new(t)) as Box<dyn Property>),
        "C13" => ("C13", |t| Box::new(props::c13::C13::new(t)) as Box<dyn Property>),
        "C14" => ("C14", |t| Box::new(props::c14::C14::new(t)) as Box<dyn Property>),
        "C09" => ("C09", |t| Box::new(props::c09::C09::new(t)) as Box<dyn Property>),
        "C10" => ("C10", |t| Box::new(props::c10::C10::new(t)) as Box<dyn Property>),
        "C11" => ("C11", |t| Box::new(props::c11::C11::new(t)) as Box<dyn Property>),
        _ => return None,
    })
}

fn main() {
    core::install_panic_hook();
    if std::env::var("VERIF_KEEP_STDERR").is_err() {
        core::silence_library_stderr();
    }
    let args: Vec<String> = std::env::args().skip(1).collect();
    let mut id = None;
    let mut tier = match std::env::var("VERIF_TIER").as_deref() {
        Ok("thorough") => Tier::Thorough,
        _ => Tier::Quick,
    };
    let mut seed: u64 = std::env::var("VERIF_SEED")
        .ok()
        .and_then(|s| s.trim().parse::<i64>().ok())
        .map(|v| v as u64)
        .unwrap_or(0);
    let mut replay = None;
    let mut worker = false;
    let mut cases = None;
    let mut i = 0;
    while i < args.len() {
        match args[i].as_str() {
            "--worker" => worker = true,
            "--tier" => {
                i += 1;
                tier = match args.get(i).map(|s| s.as_str()) {
                    Some("thorough") => Tier::Thorough,
                    _ => Tier::Quick,
                };
            }
            "quick" => tier = Tier::Quick,
            "thorough" => tier = Tier::Thorough,
            "--seed" => {
                i += 1;
                seed = args
                    .get(i)
                    .and_then(|s| s.parse::<i64>().ok())
                    .map(|v| v as u64)
                    .unwrap_or(seed);
            }
            "--cases" => {
                i += 1;
                cases = args.get(i).and_then(|s| s.parse::<u64>().ok());
            }
            "--replay" => {
                i += 1;
                replay = args.get(i).map(std::path::PathBuf::from);
            }
            other => {
                if id.is_none() {
                    id = Some(other.to_string());
                }
            }
        }
        i += 1;
    }
    let id = match id {
        Some(i) => i,
        None => {
            core::note(&format!("usage: ucgverif <property id> [quick|thorough] [--seed N] [--replay file]"));
            std::process::exit(2);
        }
    };
    let (sid, factory) = match factory_for(&id) {
        Some(f) => f,
        None => {
            core::note(&format!("unknown property {}", id));
            std::process::exit(2);
        }
    };
    if worker {
        runner::worker_main(factory, tier);
        let _ = std::fs::remove_dir_all(ucgrun::scratch_root());
        return;
    }
    let code = runner::run_check(
        sid,
        factory,
        RunConfig {
            tier,
            seed,
            replay,
            cases_override: cases,
        },
    );
    // nothing of this process is needed under the scratch root any more
    let _ = std::fs::remove_dir_all(ucgrun::scratch_root());
    std::process::exit(code);
}
