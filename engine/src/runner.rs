//! Sharded runner: regression replays, known-finding probes, enumerated cases,
//! proptest-driven tape cases with shrinking, replay files and evidence.

use crate::core::*;
use crate::known;
use proptest::strategy::Strategy;
use proptest::test_runner::{Config, RngSeed, TestCaseError, TestError, TestRunner};
use serde_json::{json, Value as J};
use std::collections::{BTreeMap, BTreeSet, HashSet};
use std::io::{BufRead, BufReader, Write};
use std::path::PathBuf;
use std::process::{Child, ChildStdin, Command, Stdio};
use std::sync::atomic::{AtomicBool, Ordering};
use std::sync::mpsc::{channel, Receiver};
use std::time::{Duration, Instant};

macro_rules! enote {
    ($($arg:tt)*) => { crate::core::note(&format!($($arg)*)) };
}

pub type Factory = fn(Tier) -> Box<dyn Property>;

pub struct RunConfig {
    pub tier: Tier,
    pub seed: u64,
    pub replay: Option<PathBuf>,
    pub cases_override: Option<u64>,
}

static STOP: AtomicBool = AtomicBool::new(false);

const CASE_TIMEOUT: Duration = Duration::from_secs(120);

// ---------------------------------------------------------------- executors

struct Worker {
    child: Child,
    stdin: ChildStdin,
    rx: Receiver<String>,
}

impl Worker {
    fn spawn(id: &str, tier: Tier) -> std::io::Result<Worker> {
        let exe = std::env::current_exe()?;
        let mut child = Command::new(exe)
            .arg("--worker")
            .arg(id)
            .arg("--tier")
            .arg(tier.name())
            .stdin(Stdio::piped())
            .stdout(Stdio::piped())
            .stderr(Stdio::null())
            .spawn()?;
        let stdin = child.stdin.take().unwrap();
        let stdout = child.stdout.take().unwrap();
        let (tx, rx) = channel();
        std::thread::spawn(move || {
            let r = BufReader::new(stdout);
            for line in r.lines() {
                match line {
                    Ok(l) => {
                        if tx.send(l).is_err() {
                            break;
                        }
                    }
                    Err(_) => break,
                }
            }
        });
        Ok(Worker { child, stdin, rx })
    }
}

pub enum ExecError {
    /// wall-clock watchdog: never a violation, the run becomes inconclusive
    Timeout,
    Harness(String),
}

enum Exec {
    InProc {
        p: Box<dyn Property>,
        pending: Vec<Outcome>,
    },
    Worker {
        id: String,
        tier: Tier,
        w: Option<Worker>,
        pending: Vec<Outcome>,
    },
}

impl Exec {
    fn new(id: &str, factory: Factory, tier: Tier, use_worker: bool) -> Exec {
        if use_worker {
            Exec::Worker {
                id: id.to_string(),
                tier,
                w: None,
                pending: vec![],
            }
        } else {
            Exec::InProc {
                p: factory(tier),
                pending: vec![],
            }
        }
    }

    /// Run a case and fold its sub-cases: passing sub-cases are handed to `sink`
    /// (statistics); the first failing one (or, without failure, the last) is returned.
    fn run(&mut self, c: &CaseRef) -> Result<Outcome, ExecError> {
        let mut all = self.run_all(c)?;
        if all.is_empty() {
            return Ok(Outcome::discard("empty batch", format!("{:?}", c)));
        }
        if let Some(i) = all.iter().position(|o| o.is_fail()) {
            let f = all.remove(i);
            all.truncate(i);
            self.pending().extend(all);
            return Ok(f);
        }
        let last = all.pop().unwrap();
        self.pending().extend(all);
        Ok(last)
    }

    fn pending(&mut self) -> &mut Vec<Outcome> {
        match self {
            Exec::InProc { pending, .. } => pending,
            Exec::Worker { pending, .. } => pending,
        }
    }

    fn run_all(&mut self, c: &CaseRef) -> Result<Vec<Outcome>, ExecError> {
        match self {
            Exec::InProc { p, .. } => {
                let r = catch(std::panic::AssertUnwindSafe(|| p.run_case(c)));
                match r {
                    Ok(o) => Ok(o),
                    Err(pi) => {
                        let mut o = Outcome::pass(format!("{:?}", c));
                        o.fail(&pi.sig(), format!("panic: {} at {}", pi.msg, pi.loc));
                        Ok(vec![o])
                    }
                }
            }
            Exec::Worker { id, tier, w, .. } => {
                if w.is_none() {
                    *w = Some(
                        Worker::spawn(id, *tier)
                            .map_err(|e| ExecError::Harness(format!("spawn worker: {}", e)))?,
                    );
                }
                let wk = w.as_mut().unwrap();
                let line = c.to_line();
                let wrote = writeln!(wk.stdin, "{}", line).and_then(|_| wk.stdin.flush());
                let reply = if wrote.is_ok() {
                    match wk.rx.recv_timeout(CASE_TIMEOUT) {
                        Ok(l) => Some(l),
                        Err(std::sync::mpsc::RecvTimeoutError::Timeout) => {
                            let _ = wk.child.kill();
                            let _ = wk.child.wait();
                            *w = None;
                            return Err(ExecError::Timeout);
                        }
                        Err(_) => None,
                    }
                } else {
                    None
                };
                match reply {
                    Some(l) => {
                        let j: J = serde_json::from_str(&l)
                            .map_err(|e| ExecError::Harness(format!("bad worker reply: {}", e)))?;
                        let arr = j
                            .as_array()
                            .ok_or_else(|| ExecError::Harness("bad worker reply shape".into()))?;
                        arr.iter()
                            .map(|x| {
                                Outcome::from_json(x)
                                    .ok_or_else(|| ExecError::Harness("bad worker reply shape".into()))
                            })
                            .collect()
                    }
                    None => {
                        // the worker died: abort, stack overflow, OOM kill …
                        let status = wk.child.wait().ok();
                        *w = None;
                        let how = match status {
                            Some(s) => {
                                use std::os::unix::process::ExitStatusExt;
                                if let Some(sig) = s.signal() {
                                    format!("signal={}", sig)
                                } else {
                                    format!("exit={}", s.code().unwrap_or(-1))
                                }
                            }
                            None => "unknown".to_string(),
                        };
                        let mut o = Outcome::pass(format!("{:?}", c));
                        o.fail(
                            &format!("abort:{}", how),
                            format!("worker process died ({}) while running the case", how),
                        );
                        Ok(vec![o])
                    }
                }
            }
        }
    }
}

// ---------------------------------------------------------------- statistics

#[derive(Default)]
struct Stats {
    evaluations: u64,
    discards: BTreeMap<String, u64>,
    excluded_known: BTreeMap<String, u64>,
    classes: BTreeMap<String, u64>,
    nontrivial: HashSet<u64>,
    distinct: HashSet<u64>,
    samples: BTreeMap<String, Vec<String>>,
    timeouts: u64,
    harness_errors: Vec<String>,
}

impl Stats {
    fn absorb(&mut self, o: &Outcome) {
        self.evaluations += 1;
        for c in &o.classes {
            *self.classes.entry(c.clone()).or_insert(0) += 1;
        }
        if let Verdict::Discard(r) = &o.verdict {
            *self.discards.entry(r.clone()).or_insert(0) += 1;
            // a property's own wall-clock watchdog: never a violation, the run is inconclusive
            if r.starts_with("watchdog:") {
                self.timeouts += 1;
            }
            return;
        }
        self.distinct.insert(o.key);
        if o.nontrivial {
            let fresh = self.nontrivial.insert(o.key);
            if fresh {
                let cls = o.classes.first().cloned().unwrap_or_default();
                let v = self.samples.entry(cls).or_default();
                if v.len() < 2 {
                    v.push(clip(&o.rendered, 700));
                }
            }
        }
    }
    fn merge(&mut self, other: Stats) {
        self.evaluations += other.evaluations;
        for (k, v) in other.discards {
            *self.discards.entry(k).or_insert(0) += v;
        }
        for (k, v) in other.excluded_known {
            *self.excluded_known.entry(k).or_insert(0) += v;
        }
        for (k, v) in other.classes {
            *self.classes.entry(k).or_insert(0) += v;
        }
        self.nontrivial.extend(other.nontrivial);
        self.distinct.extend(other.distinct);
        for (k, vs) in other.samples {
            let v = self.samples.entry(k).or_default();
            for s in vs {
                if v.len() < 3 {
                    v.push(s);
                }
            }
        }
        self.timeouts += other.timeouts;
        self.harness_errors.extend(other.harness_errors);
    }
}

fn clip(s: &str, n: usize) -> String {
    if s.chars().count() <= n {
        s.to_string()
    } else {
        let t: String = s.chars().take(n).collect();
        format!("{}…[clipped]", t)
    }
}

struct Failure {
    shard: usize,
    case: CaseRef,
    outcome: Outcome,
}

// ---------------------------------------------------------------- one shard

fn run_shard(
    id: &str,
    factory: Factory,
    tier: Tier,
    use_worker: bool,
    shard: usize,
    nshards: usize,
    seed: u64,
    fixed: u64,
    cases: u64,
    tape_min: usize,
    tape_max: usize,
    known_keys: &BTreeSet<String>,
    shrink_iters: u32,
) -> (Stats, Option<Failure>) {
    let mut exec = Exec::new(id, factory, tier, use_worker);
    let mut stats = Stats::default();
    let mut failure: Option<Failure> = None;

    // enumerated cases: index ≡ shard (mod nshards)
    let mut i = shard as u64;
    while i < fixed {
        if STOP.load(Ordering::Relaxed) {
            break;
        }
        let c = CaseRef::Fixed(i);
        let r = exec.run(&c);
        for po in exec.pending().drain(..) {
            stats.absorb(&po);
        }
        match r {
            Ok(o) => {
                if let Verdict::Fail { sig, .. } = &o.verdict {
                    if known_keys.contains(sig) {
                        *stats.excluded_known.entry(sig.clone()).or_insert(0) += 1;
                        stats.evaluations += 1;
                    } else {
                        stats.evaluations += 1;
                        failure = Some(Failure {
                            shard,
                            case: c,
                            outcome: o,
                        });
                        STOP.store(true, Ordering::Relaxed);
                        break;
                    }
                } else {
                    stats.absorb(&o);
                }
            }
            Err(ExecError::Timeout) => stats.timeouts += 1,
            Err(ExecError::Harness(e)) => {
                stats.harness_errors.push(e);
                break;
            }
        }
        i += nshards as u64;
    }
    if failure.is_some() || cases == 0 {
        return (stats, failure);
    }

    // generated cases
    let config = Config {
        cases: cases as u32,
        failure_persistence: None,
        rng_seed: RngSeed::Fixed(
            seed.wrapping_mul(0x9E3779B97F4A7C15)
                .wrapping_add((shard as u64 + 1).wrapping_mul(0xD1B54A32D192ED03)),
        ),
        max_shrink_iters: shrink_iters,
        max_shrink_time: 45_000,
        verbose: 0,
        ..Config::default()
    };
    let mut runner = TestRunner::new(config);
    let strat = proptest::collection::vec(proptest::num::u32::ANY, tape_min..tape_max.max(tape_min + 1));
    let failed = std::cell::Cell::new(false);
    let stats_cell = std::cell::RefCell::new(&mut stats);
    let exec_cell = std::cell::RefCell::new(&mut exec);
    let last_fail: std::cell::RefCell<Option<(Vec<u32>, Outcome)>> = std::cell::RefCell::new(None);
    let result = runner.run(&strat, |tape| {
        if !failed.get() && STOP.load(Ordering::Relaxed) {
            return Ok(());
        }
        let c = CaseRef::Tape(tape.clone());
        let r = exec_cell.borrow_mut().run(&c);
        {
            let mut ex = exec_cell.borrow_mut();
            let pend: Vec<Outcome> = ex.pending().drain(..).collect();
            if !failed.get() {
                let mut st = stats_cell.borrow_mut();
                for po in &pend {
                    st.absorb(po);
                }
            }
        }
        match r {
            Ok(o) => {
                if let Verdict::Fail { sig, msg } = &o.verdict {
                    if known_keys.contains(sig) {
                        if !failed.get() {
                            let mut st = stats_cell.borrow_mut();
                            *st.excluded_known.entry(sig.clone()).or_insert(0) += 1;
                            st.evaluations += 1;
                        }
                        return Ok(());
                    }
                    if !failed.get() {
                        stats_cell.borrow_mut().evaluations += 1;
                    }
                    failed.set(true);
                    let m = format!("{}: {}", sig, msg);
                    *last_fail.borrow_mut() = Some((tape, o));
                    return Err(TestCaseError::fail(m));
                }
                if !failed.get() {
                    stats_cell.borrow_mut().absorb(&o);
                }
                Ok(())
            }
            Err(ExecError::Timeout) => {
                if !failed.get() {
                    stats_cell.borrow_mut().timeouts += 1;
                }
                Ok(())
            }
            Err(ExecError::Harness(e)) => {
                stats_cell.borrow_mut().harness_errors.push(e);
                Ok(())
            }
        }
    });
    drop(stats_cell);
    drop(exec_cell);
    if let Err(TestError::Fail(_, shrunk)) = result {
        STOP.store(true, Ordering::Relaxed);
        // re-run the shrunk tape for the final outcome text
        let c = CaseRef::Tape(shrunk.clone());
        let outcome = match exec.run(&c) {
            Ok(o) if o.is_fail() => o,
            _ => {
                // flaky or shrunk into a pass: fall back to the last failing run
                match last_fail.borrow_mut().take() {
                    Some((t, o)) => {
                        failure = Some(Failure {
                            shard,
                            case: CaseRef::Tape(t),
                            outcome: o,
                        });
                        return (stats, failure);
                    }
                    None => return (stats, None),
                }
            }
        };
        failure = Some(Failure {
            shard,
            case: c,
            outcome,
        });
    } else if let Err(TestError::Abort(r)) = result {
        stats.harness_errors.push(format!("proptest abort: {}", r));
    }
    (stats, failure)
}

// ---------------------------------------------------------------- whole check

pub fn run_check(id: &'static str, factory: Factory, cfg: RunConfig) -> i32 {
    let start = Instant::now();
    let root = known::verif_root();
    let mut proto = factory(cfg.tier);
    let use_worker = proto.use_worker() && std::env::var("VERIF_NO_WORKER").is_err();
    let open = known::load_open(id);
    let known_keys: BTreeSet<String> = open.iter().map(|f| f.key.clone()).collect();

    // single replay
    if let Some(path) = &cfg.replay {
        let text = match std::fs::read_to_string(path) {
            Ok(t) => t,
            Err(e) => {
                enote!("cannot read replay {}: {}", path.display(), e);
                return 2;
            }
        };
        let j: J = match serde_json::from_str(&text) {
            Ok(j) => j,
            Err(e) => {
                enote!("bad replay file: {}", e);
                return 2;
            }
        };
        let c = match j.get("case").and_then(CaseRef::from_json) {
            Some(c) => c,
            None => {
                enote!("replay file has no case");
                return 2;
            }
        };
        let mut exec = Exec::new(id, factory, cfg.tier, use_worker);
        return match exec.run(&c) {
            Ok(o) => {
                if std::env::var("VERIF_REWRITE_PORTABLE").is_ok() {
                    if let Some(p) = &o.portable {
                        let mut j2 = j.clone();
                        j2["generated_from"] = j["case"].clone();
                        j2["case"] = CaseRef::Text(p.clone()).to_json();
                        j2["rendered"] = J::String(o.rendered.clone());
                        let _ = std::fs::write(path, serde_json::to_string_pretty(&j2).unwrap() + "\n");
                        println!("rewrote {} with a portable case", path.display());
                    }
                }
                println!("case:\n{}", o.rendered);
                match &o.verdict {
                    Verdict::Fail { sig, msg } => {
                        println!("FAIL sig={}\n{}", sig, msg);
                        println!("VIOLATION property={} replay={}", id, path.display());
                        1
                    }
                    Verdict::Pass => {
                        println!("PASS");
                        0
                    }
                    Verdict::Discard(r) => {
                        println!("DISCARD {}", r);
                        0
                    }
                }
            }
            Err(ExecError::Timeout) => {
                enote!("INCONCLUSIVE: case exceeded the wall-clock watchdog");
                2
            }
            Err(ExecError::Harness(e)) => {
                enote!("harness error: {}", e);
                2
            }
        };
    }

    let mut violations: Vec<(String, String)> = vec![]; // (replay path, summary)
    let mut regressions_run = 0u64;
    let mut known_reported = vec![];

    // 1. regression replays (fixed defects must stay fixed)
    {
        let dir = root.join("regressions").join(id);
        let mut files: Vec<PathBuf> = std::fs::read_dir(&dir)
            .map(|d| d.filter_map(|e| e.ok().map(|e| e.path())).collect())
            .unwrap_or_default();
        files.sort();
        let mut exec = Exec::new(id, factory, cfg.tier, use_worker);
        for f in files {
            if f.extension().and_then(|e| e.to_str()) != Some("json") {
                continue;
            }
            let j: J = match std::fs::read_to_string(&f)
                .ok()
                .and_then(|t| serde_json::from_str(&t).ok())
            {
                Some(j) => j,
                None => continue,
            };
            let c = match j.get("case").and_then(CaseRef::from_json) {
                Some(c) => c,
                None => continue,
            };
            regressions_run += 1;
            match exec.run(&c) {
                Ok(o) => {
                    if let Verdict::Fail { sig, msg } = &o.verdict {
                        if !known_keys.contains(sig) {
                            violations.push((
                                f.display().to_string(),
                                format!("regression {}: {}", sig, clip(msg, 300)),
                            ));
                        }
                    }
                }
                Err(ExecError::Timeout) => {
                    enote!("INCONCLUSIVE: regression {} timed out", f.display());
                }
                Err(ExecError::Harness(e)) => enote!("harness error: {}", e),
            }
        }
    }

    // 2. probes of open findings
    {
        let mut exec = Exec::new(id, factory, cfg.tier, use_worker);
        for f in &open {
            let p = root.join(&f.replay);
            let j: Option<J> = std::fs::read_to_string(&p)
                .ok()
                .and_then(|t| serde_json::from_str(&t).ok());
            let c = j.as_ref().and_then(|j| j.get("case")).and_then(CaseRef::from_json);
            match c {
                Some(c) => match exec.run(&c) {
                    Ok(o) => match &o.verdict {
                        Verdict::Fail { sig, .. } if *sig == f.key => {
                            println!("KNOWN-FINDING: property={} {} [{}]", id, f.what, f.key);
                            known_reported.push(f.key.clone());
                        }
                        Verdict::Fail { sig, msg } => {
                            // the stored input now fails differently: that is new
                            let path = write_replay(&root, id, cfg.seed, violations.len(), &c, &o);
                            violations.push((path, format!("{}: {}", sig, clip(msg, 300))));
                        }
                        _ => enote!(
                            "note: open finding {} no longer reproduces from {}",
                            f.key, f.replay
                        ),
                    },
                    Err(_) => enote!("note: open finding {} probe did not finish", f.key),
                },
                None => enote!("note: open finding {} has no readable replay {}", f.key, f.replay),
            }
        }
    }

    // 3. search
    let budget = proto.budget(cfg.tier);
    let cases = cfg.cases_override.unwrap_or(budget.cases);
    let fixed = proto.fixed_count(cfg.tier);
    let nshards = proto.shards().max(1);
    let rule = proto.rule();
    let assumptions = proto.assumptions();
    let level = proto.level();
    let floors = proto.vacuity_floor();
    let exhaustive = proto.fixed_exhaustive();
    let shrink_iters = proto.shrink_iters();
    let extra = proto.extra();
    drop(proto);

    let mut total = Stats::default();
    let mut failures: Vec<Failure> = vec![];
    if violations.is_empty() {
        let per = cases / nshards as u64;
        let rem = cases % nshards as u64;
        let results: Vec<(Stats, Option<Failure>)> = std::thread::scope(|s| {
            let mut hs = vec![];
            for shard in 0..nshards {
                let kk = &known_keys;
                let n = per + if (shard as u64) < rem { 1 } else { 0 };
                let (tmin, tmax) = (budget.tape_min, budget.tape_max);
                let seed = cfg.seed;
                let tier = cfg.tier;
                hs.push(
                    std::thread::Builder::new()
                        .stack_size(256 << 20)
                        .spawn_scoped(s, move || {
                            run_shard(
                                id, factory, tier, use_worker, shard, nshards, seed, fixed, n,
                                tmin, tmax, kk, shrink_iters,
                            )
                        })
                        .unwrap(),
                );
            }
            hs.into_iter()
                .map(|h| h.join().unwrap_or_else(|_| (Stats::default(), None)))
                .collect()
        });
        for (st, f) in results {
            total.merge(st);
            if let Some(f) = f {
                failures.push(f);
            }
        }
    }
    failures.sort_by_key(|f| f.shard);
    let mut seen_sigs = BTreeSet::new();
    for f in &failures {
        if let Verdict::Fail { sig, msg } = &f.outcome.verdict {
            if !seen_sigs.insert(sig.clone()) {
                continue;
            }
            let path = write_replay(&root, id, cfg.seed, violations.len(), &f.case, &f.outcome);
            violations.push((path, format!("{}: {}", sig, clip(msg, 400))));
        }
    }

    // vacuity / inconclusive
    let mut inconclusive = vec![];
    if total.timeouts > 0 {
        inconclusive.push(format!(
            "{} case(s) exceeded the {} s wall-clock watchdog",
            total.timeouts,
            CASE_TIMEOUT.as_secs()
        ));
    }
    for e in &total.harness_errors {
        inconclusive.push(format!("harness error: {}", e));
    }
    if violations.is_empty() && total.evaluations > 0 {
        for (cls, floor) in &floors {
            let n = *total.classes.get(*cls).unwrap_or(&0);
            let pct = 100.0 * n as f64 / total.evaluations as f64;
            if pct < *floor {
                inconclusive.push(format!(
                    "vacuous run: class {} is {:.2}% of cases, floor {}%",
                    cls, pct, floor
                ));
            }
        }
    }

    // 4. evidence
    let wall = start.elapsed().as_secs_f64();
    let mut samples: Vec<J> = vec![];
    for round in 0..3 {
        for (cls, vs) in &total.samples {
            if let Some(s) = vs.get(round) {
                if samples.len() < 14 {
                    samples.push(json!({"class": cls, "case": s}));
                }
            }
        }
    }
    if samples.is_empty() {
        samples.push(J::String("(no non-trivial case in this run)".into()));
    }
    let mut coverage = json!({
        "evaluations": total.evaluations,
        "distinct_nontrivial": total.nontrivial.len(),
        "distinct_cases": total.distinct.len(),
        "rule": rule,
        "samples": samples,
        "generated_cases": cases,
        "enumerated_cases": fixed,
        "regressions_replayed": regressions_run,
        "classes": total.classes,
        "discarded": total.discards,
        "excluded_known": total.excluded_known,
        "known_findings_reported": known_reported,
        "shards": nshards,
        "worker_isolation": use_worker,
        "inconclusive": inconclusive,
    });
    if exhaustive && violations.is_empty() {
        coverage["exhaustive"] = J::Bool(true);
        coverage["exhaustive_note"] =
            J::String("the enumerated sub-space (enumerated_cases) was covered completely; generated cases are a sample".into());
    }
    if !extra.is_null() {
        coverage["extra"] = extra;
    }
    let ev = json!({
        "property_id": id,
        "tier": cfg.tier.name(),
        "seed": cfg.seed,
        "level": level,
        "coverage": coverage,
        "assumptions": assumptions,
        "wall_s": (wall * 1000.0).round() / 1000.0,
        "violations": violations.len(),
    });
    let evdir = root.join("evidence");
    let _ = std::fs::create_dir_all(&evdir);
    let evpath = evdir.join(format!("{}.json", id));
    if let Err(e) = std::fs::write(&evpath, serde_json::to_string_pretty(&ev).unwrap() + "\n") {
        enote!("cannot write evidence {}: {}", evpath.display(), e);
        return 2;
    }

    println!(
        "{} {} seed={} evaluations={} distinct_nontrivial={} discarded={} excluded_known={} wall={:.1}s",
        id,
        cfg.tier.name(),
        cfg.seed,
        total.evaluations,
        total.nontrivial.len(),
        total.discards.values().sum::<u64>(),
        total.excluded_known.values().sum::<u64>(),
        wall
    );
    if !violations.is_empty() {
        for (path, what) in &violations {
            println!("violation: {}", what);
            println!("VIOLATION property={} replay={}", id, path);
        }
        return 1;
    }
    if !inconclusive.is_empty() {
        for m in &inconclusive {
            enote!("INCONCLUSIVE: {}", m);
        }
        return 2;
    }
    0
}

fn write_replay(root: &PathBuf, id: &str, seed: u64, n: usize, c: &CaseRef, o: &Outcome) -> String {
    let dir = root.join("replays");
    let _ = std::fs::create_dir_all(&dir);
    let path = dir.join(format!("{}-{}-{}.json", id, seed, n));
    let (sig, msg) = match &o.verdict {
        Verdict::Fail { sig, msg } => (sig.clone(), msg.clone()),
        _ => (String::new(), String::new()),
    };
    let case = match &o.portable {
        Some(t) => CaseRef::Text(t.clone()).to_json(),
        None => c.to_json(),
    };
    let j = json!({
        "property": id,
        "seed": seed,
        "case": case,
        "generated_from": c.to_json(),
        "signature": sig,
        "explanation": msg,
        "rendered": o.rendered,
    });
    let _ = std::fs::write(&path, serde_json::to_string_pretty(&j).unwrap() + "\n");
    path.display().to_string()
}

// ---------------------------------------------------------------- worker side

pub fn worker_main(factory: Factory, tier: Tier) {
    // 8 MiB stack, the main-thread default the CLI runs with
    let h = std::thread::Builder::new()
        .stack_size(8 << 20)
        .spawn(move || {
            let mut prop = factory(tier);
            let stdin = std::io::stdin();
            let stdout = std::io::stdout();
            let mut line = String::new();
            loop {
                line.clear();
                match stdin.lock().read_line(&mut line) {
                    Ok(0) | Err(_) => break,
                    Ok(_) => {}
                }
                let c = match CaseRef::from_line(&line) {
                    Some(c) => c,
                    None => continue,
                };
                let r = catch(std::panic::AssertUnwindSafe(|| prop.run_case(&c)));
                let os = match r {
                    Ok(o) => o,
                    Err(pi) => {
                        let mut o = Outcome::pass(format!("{:?}", c));
                        o.fail(&pi.sig(), format!("panic: {} at {}", pi.msg, pi.loc));
                        vec![o]
                    }
                };
                let arr = J::Array(os.iter().map(|o| o.to_json()).collect());
                let mut out = stdout.lock();
                let _ = writeln!(out, "{}", arr);
                let _ = out.flush();
            }
        })
        .unwrap();
    let _ = h.join();
}

#[allow(dead_code)]
pub fn strategy_len_hint<S: Strategy>(_s: &S) {}
