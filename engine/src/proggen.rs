//! Typed, size-bounded program generator decoded from the choice tape
//! (DESIGN.md 3.1).  About one sub-term in ten is deliberately ill-typed or
//! failing so that error paths and the skipping of errors by short-circuit
//! and select are exercised.

use crate::prog::*;
use crate::tape::Tape;

#[derive(Clone, Debug, PartialEq)]
pub enum Ty {
    Int,
    Float,
    Str,
    Bool,
    Null,
    List(Box<Ty>),
    Tuple(Vec<(String, Ty)>),
    Func(Vec<Ty>, Box<Ty>),
    /// module: parameters, result type
    Module(Vec<(String, Ty)>, Box<Ty>),
}

#[derive(Clone)]
pub struct GenCfg {
    pub max_depth: u32,
    pub max_stmts: usize,
    pub max_width: usize,
    /// per-mille of deliberately wrong sub-terms
    pub wrong_permille: u32,
    /// first-order fragment only (C07): no failing terms, no ill-typed terms
    pub well_typed_only: bool,
    pub modules: bool,
    pub funcs: bool,
    /// extra literal forms (escapes, non-ASCII, extreme floats) for the formatter checks
    pub literal_variety: bool,
}

impl GenCfg {
    pub fn quick() -> Self {
        GenCfg { max_depth: 6, max_stmts: 12, max_width: 4, wrong_permille: 12, well_typed_only: false, modules: true, funcs: true, literal_variety: false }
    }
    pub fn thorough() -> Self {
        GenCfg { max_depth: 8, max_stmts: 30, max_width: 8, wrong_permille: 8, well_typed_only: false, modules: true, funcs: true, literal_variety: false }
    }
}

pub struct Gen<'a, 'b> {
    pub t: &'a mut Tape<'b>,
    pub cfg: GenCfg,
    /// (name, type) visible at this point, innermost last
    pub scope: Vec<(String, Ty)>,
    counter: u32,
    /// construct labels used (class counters)
    pub used: Vec<&'static str>,
    /// statements to emit right after the current one
    pending: Vec<Stmt>,
}

const STRS: [&str; 9] = ["", "a", "b", "foo", "true", "1", "ab", "x y", "foo bar"];
const INTS: [i64; 8] = [0, 1, 2, 3, 7, 10, 100, 12];
const FLOATS: [f64; 4] = [0.5, 1.5, 2.25, 1.0];
const FIELDS: [&str; 6] = ["a", "b", "c", "foo", "bar", "x"];

impl<'a, 'b> Gen<'a, 'b> {
    pub fn new(t: &'a mut Tape<'b>, cfg: GenCfg) -> Self {
        Gen { t, cfg, scope: vec![], counter: 0, used: vec![], pending: vec![] }
    }

    fn mark(&mut self, l: &'static str) {
        if !self.used.contains(&l) {
            self.used.push(l);
        }
    }

    fn fresh(&mut self, prefix: &str) -> String {
        self.counter += 1;
        format!("{}{}", prefix, self.counter)
    }

    pub fn gen_type(&mut self, depth: u32) -> Ty {
        let leaf = depth >= 2;
        match self.t.weighted(&[6, 2, 5, 4, 1, if leaf { 0 } else { 4 }, if leaf { 0 } else { 4 }]) {
            0 => Ty::Int,
            1 => Ty::Float,
            2 => Ty::Str,
            3 => Ty::Bool,
            4 => Ty::Null,
            5 => Ty::List(Box::new(self.gen_type(depth + 1))),
            _ => {
                let n = 1 + self.t.choice(3);
                let mut fs: Vec<(String, Ty)> = vec![];
                for _ in 0..n {
                    let k = FIELDS[self.t.choice(FIELDS.len())].to_string();
                    if fs.iter().any(|(k2, _)| *k2 == k) {
                        continue;
                    }
                    let ty = self.gen_type(depth + 1);
                    fs.push((k, ty));
                }
                Ty::Tuple(fs)
            }
        }
    }

    fn literal(&mut self, ty: &Ty, depth: u32) -> E {
        match ty {
            Ty::Int => {
                let i = INTS[self.t.choice(INTS.len())];
                if self.t.chance(1, 12) {
                    // negative via subtraction (there is no negative literal)
                    E::Bin(Op::Sub, Box::new(E::Int(0)), Box::new(E::Int(i)))
                } else {
                    E::Int(i)
                }
            }
            Ty::Float => {
                if self.t.chance(1, 10) {
                    // values only arithmetic produces: negative zero, infinity, not-a-number, zero
                    self.mark("float-edge");
                    let f = |x: f64| Box::new(E::Float(x));
                    let neg_one = Box::new(E::Bin(Op::Sub, f(0.0), f(1.0)));
                    match self.t.choice(5) {
                        0 => E::Bin(Op::Mul, f(0.0), neg_one),
                        1 => E::Bin(Op::Div, f(0.0), f(0.0)),
                        2 => E::Bin(Op::Div, f(1.0), f(0.0)),
                        3 => E::Bin(Op::Div, neg_one, f(0.0)),
                        _ => E::Float(0.0),
                    }
                } else if self.cfg.literal_variety && self.t.chance(1, 3) {
                    E::Float(*self.t.pick(&[1.0, 100.0, 0.0, 1e21, 1e-7, 123456.789, 2.0]))
                } else {
                    E::Float(FLOATS[self.t.choice(FLOATS.len())])
                }
            }
            Ty::Str => {
                if self.cfg.literal_variety && self.t.chance(1, 3) {
                    E::Str((*self.t.pick(&["é", "a\"b", "a\\b", "x\ny", "tab\there", "日本語", "@", "\\@", "it's", "//not a comment", "semi;colon"])).to_string())
                } else {
                    E::Str(STRS[self.t.choice(STRS.len())].to_string())
                }
            }
            Ty::Bool => E::Bool(self.t.chance(1, 2)),
            Ty::Null => E::Null,
            Ty::List(el) => {
                let n = self.t.choice(self.cfg.max_width + 1);
                E::List((0..n).map(|_| self.expr(el, depth + 1)).collect())
            }
            Ty::Tuple(fs) => E::Tuple(fs.iter().map(|(k, t)| (k.clone(), self.expr(t, depth + 1))).collect()),
            Ty::Func(params, ret) => {
                let mut names: Vec<String> = vec![];
                for _ in params.iter() {
                    let n = self.param_name(&names);
                    names.push(n);
                }
                let mark = self.scope.len();
                // the reference does not say whether a function defined inside a copy body
                // may refer to that copy's `self`: not generated
                let hidden: Vec<usize> = (0..mark).filter(|i| self.scope[*i].0 == "self").collect();
                for i in &hidden {
                    self.scope[*i].0 = "\u{0}hidden-self".to_string();
                }
                for (n, t) in names.iter().zip(params) {
                    self.scope.push((n.clone(), t.clone()));
                }
                let body = self.expr(ret, depth + 1);
                self.scope.truncate(mark);
                for i in &hidden {
                    self.scope[*i].0 = "self".to_string();
                }
                self.mark("func");
                E::Func { params: names, body: Box::new(body) }
            }
            Ty::Module(params, ret) => self.module_literal(params, ret, depth),
        }
    }

    fn module_literal(&mut self, params: &[(String, Ty)], ret: &Ty, depth: u32) -> E {
        self.mark("module");
        // defaults are evaluated in the defining scope
        let ps: Vec<(String, E)> = params.iter().map(|(k, t)| (k.clone(), self.expr(t, depth + 1))).collect();
        // the body sees only `mod`
        let saved = std::mem::take(&mut self.scope);
        self.scope.push(("mod".to_string(), Ty::Tuple(params.to_vec())));
        let mut body = vec![];
        let n = self.t.choice(3);
        for _ in 0..n {
            let ty = self.gen_type(1);
            let name = self.fresh("m");
            let e = self.expr(&ty, depth + 1);
            self.scope.push((name.clone(), ty));
            body.push(Stmt::Let(name, e));
        }
        let out = self.expr(ret, depth + 1);
        self.scope = saved;
        E::Module { params: ps, out: Some(Box::new(out)), body }
    }

    /// visible names of this type (an inner binding shadows an outer one of the same name)
    fn names_of(&self, ty: &Ty) -> Vec<String> {
        let mut seen: Vec<&String> = vec![];
        let mut out = vec![];
        for (n, t) in self.scope.iter().rev() {
            if seen.contains(&n) {
                continue;
            }
            seen.push(n);
            if t == ty && !n.starts_with('\u{0}') {
                out.push(n.clone());
            }
        }
        out.reverse();
        out
    }

    /// the visible (innermost) bindings
    fn visible(&self) -> Vec<(String, Ty)> {
        let mut seen: Vec<&String> = vec![];
        let mut out = vec![];
        for (n, t) in self.scope.iter().rev() {
            if seen.contains(&n) {
                continue;
            }
            seen.push(n);
            if n.starts_with('\u{0}') {
                continue;
            }
            out.push((n.clone(), t.clone()));
        }
        out.reverse();
        out
    }

    /// a parameter name: fresh, or one that coincides with a binding made before or after
    fn param_name(&mut self, taken: &[String]) -> String {
        let k = self.t.weighted(&[6, 2, 2]);
        let cand = match k {
            1 => {
                let vis = self.visible();
                let vis: Vec<&(String, Ty)> = vis.iter().filter(|(n, _)| n != "mod" && n != "self" && n != "item" && !n.starts_with('\u{0}')).collect();
                if vis.is_empty() {
                    None
                } else {
                    self.mark("param-shadows-outer");
                    Some(vis[self.t.choice(vis.len())].0.clone())
                }
            }
            2 => {
                // a name a later statement is likely to bind
                self.mark("param-named-like-later-binding");
                Some(format!("v{}", self.counter + 1 + self.t.choice(4) as u32))
            }
            _ => None,
        };
        match cand {
            Some(c) if !taken.contains(&c) => c,
            _ => self.fresh("p"),
        }
    }

    /// A deliberately wrong term where a `ty` is wanted.
    fn wrong(&mut self, ty: &Ty, depth: u32) -> E {
        self.mark("wrong-term");
        match self.t.choice(6) {
            0 => E::Fail(Box::new(E::Str("boom".into()))),
            1 => E::Sym("unbound_name".into()),
            2 => E::Bin(Op::Div, Box::new(E::Int(1)), Box::new(E::Int(0))),
            3 => {
                // a literal of another type
                let other = match ty {
                    Ty::Int => Ty::Str,
                    Ty::Str => Ty::Int,
                    Ty::Bool => Ty::Int,
                    _ => Ty::Bool,
                };
                self.literal(&other, depth + 1)
            }
            4 => E::Field(Box::new(E::Tuple(vec![("a".into(), E::Int(1))])), Sel::Name("missing".into())),
            _ => E::Field(Box::new(E::List(vec![E::Int(1)])), Sel::Index(5)),
        }
    }

    pub fn expr(&mut self, ty: &Ty, depth: u32) -> E {
        if !self.cfg.well_typed_only && depth > 0 && self.t.chance(self.cfg.wrong_permille, 1000) {
            return self.wrong(ty, depth);
        }
        if depth >= self.cfg.max_depth {
            let names = self.names_of(ty);
            if !names.is_empty() && self.t.chance(1, 2) {
                return E::Sym(names[self.t.choice(names.len())].clone());
            }
            return self.literal(ty, depth);
        }
        // generic productions, then type-specific ones
        let names = self.names_of(ty);
        // deeper terms lean towards leaves so that programs stay readable and mostly succeed
        let leafw = 4 + 3 * depth;
        let k = self.t.weighted(&[leafw, if names.is_empty() { 0 } else { leafw + 2 }, 10, 2, 2, 2, 1, 1, 2, 1]);
        match k {
            0 => self.literal(ty, depth),
            1 => E::Sym(names[self.t.choice(names.len())].clone()),
            2 => self.specific(ty, depth),
            3 => self.select(ty, depth),
            4 => self.call_in_scope(ty, depth).unwrap_or_else(|| self.inline_call(ty, depth)),
            5 => self.field_access(ty, depth),
            6 => {
                self.mark("trace");
                E::Trace(Box::new(self.expr(ty, depth + 1)))
            }
            7 => self.reduce_to(ty, depth),
            8 => self.module_use(ty, depth),
            _ => self.index_access(ty, depth),
        }
    }

    fn select(&mut self, ty: &Ty, depth: u32) -> E {
        self.mark("select");
        let bool_sel = self.t.chance(1, 3);
        let val = if bool_sel { self.expr(&Ty::Bool, depth + 1) } else { self.expr(&Ty::Str, depth + 1) };
        let mut arms: Vec<(String, E)> = vec![];
        if bool_sel {
            let which = self.t.choice(3);
            // arms with other names never match a boolean, wherever they stand
            let other = |g: &mut Self, arms: &mut Vec<(String, E)>| {
                if g.t.chance(1, 4) {
                    g.mark("bool-select-with-other-arm");
                    let k = (*g.t.pick(&["yes", "no", "a", "maybe"])).to_string();
                    if !arms.iter().any(|(k2, _)| *k2 == k) {
                        let e = g.arm(ty, depth);
                        arms.push((k, e));
                    }
                }
            };
            other(self, &mut arms);
            if which != 1 {
                arms.push(("true".into(), self.arm(ty, depth)));
            }
            other(self, &mut arms);
            if which != 0 {
                arms.push(("false".into(), self.arm(ty, depth)));
            }
            other(self, &mut arms);
        } else {
            let n = 1 + self.t.choice(3);
            for _ in 0..n {
                let k = STRS[1 + self.t.choice(STRS.len() - 1)].to_string();
                if arms.iter().any(|(k2, _)| *k2 == k) {
                    continue;
                }
                arms.push((k, self.arm(ty, depth)));
            }
        }
        let default = if self.t.chance(2, 3) { Some(Box::new(self.expr(ty, depth + 1))) } else { None };
        E::Select { val: Box::new(val), default, arms }
    }

    /// select arms are lazy: failing terms are welcome there
    fn arm(&mut self, ty: &Ty, depth: u32) -> E {
        if !self.cfg.well_typed_only && self.t.chance(1, 6) {
            self.mark("failing-arm");
            return self.wrong(ty, depth);
        }
        self.expr(ty, depth + 1)
    }

    fn call_in_scope(&mut self, ty: &Ty, depth: u32) -> Option<E> {
        let vis = self.visible();
        let cands: Vec<(String, Vec<Ty>)> = vis
            .iter()
            .filter_map(|(n, t)| match t {
                Ty::Func(ps, r) if **r == *ty => Some((n.clone(), ps.clone())),
                _ => None,
            })
            .collect();
        // functions stored in tuple fields
        let field_cands: Vec<(String, String, Vec<Ty>)> = vis
            .iter()
            .flat_map(|(n, t)| match t {
                Ty::Tuple(fs) => fs
                    .iter()
                    .filter_map(|(k, ft)| match ft {
                        Ty::Func(ps, r) if **r == *ty => Some((n.clone(), k.clone(), ps.clone())),
                        _ => None,
                    })
                    .collect::<Vec<_>>(),
                _ => vec![],
            })
            .collect();
        if cands.is_empty() && field_cands.is_empty() {
            return None;
        }
        self.mark("call");
        let pick = self.t.choice(cands.len() + field_cands.len());
        let (callee, params) = if pick < cands.len() {
            (Callee::Name(cands[pick].0.clone()), cands[pick].1.clone())
        } else {
            let f = &field_cands[pick - cands.len()];
            self.mark("call-through-field");
            (Callee::Field(f.0.clone(), f.1.clone()), f.2.clone())
        };
        let mut args: Vec<E> = params.iter().map(|p| self.expr(p, depth + 1)).collect();
        if !self.cfg.well_typed_only && self.t.chance(1, 25) {
            self.mark("wrong-arity");
            if args.is_empty() || self.t.chance(1, 2) {
                args.push(E::Int(1));
            } else {
                args.pop();
            }
        }
        Some(E::Call { callee, args })
    }

    /// no function of this result type in scope: bind one in a tuple and call through... not
    /// expressible inline (the callee must be a name), so fall back to a specific production
    fn inline_call(&mut self, ty: &Ty, depth: u32) -> E {
        self.specific(ty, depth)
    }

    fn field_access(&mut self, ty: &Ty, depth: u32) -> E {
        // a tuple in scope with a field of this type?
        let vis = self.visible();
        let cands: Vec<(String, String)> = vis
            .iter()
            .flat_map(|(n, t)| match t {
                Ty::Tuple(fs) => fs.iter().filter(|(_, ft)| ft == ty).map(|(k, _)| (n.clone(), k.clone())).collect::<Vec<_>>(),
                _ => vec![],
            })
            .collect();
        self.mark("selector");
        if !cands.is_empty() && self.t.chance(2, 3) {
            let (n, k) = cands[self.t.choice(cands.len())].clone();
            let sel = match self.t.choice(4) {
                0 => Sel::Quoted(k),
                1 => Sel::Expr(Box::new(E::Str(k))),
                _ => Sel::Name(k),
            };
            return E::Field(Box::new(E::Sym(n)), sel);
        }
        if self.t.chance(1, 4) {
            // tuples with different field sets behind a list or a select; the field is
            // taken from the one that has it
            self.mark("heterogeneous-tuples");
            let k = FIELDS[self.t.choice(FIELDS.len())].to_string();
            let other = FIELDS[(self.t.choice(FIELDS.len() - 1) + 1 + FIELDS.iter().position(|f| *f == k).unwrap()) % FIELDS.len()].to_string();
            let oty = self.gen_type(2);
            let with = E::Tuple(vec![(other.clone(), self.expr(&oty, depth + 2)), (k.clone(), self.expr(ty, depth + 1))]);
            let without = E::Tuple(vec![(other.clone(), self.expr(&oty, depth + 2))]);
            return if self.t.chance(1, 2) {
                let (items, idx) = if self.t.chance(1, 2) { (vec![without, with], 1) } else { (vec![with, without], 0) };
                E::Field(Box::new(E::Field(Box::new(E::List(items)), Sel::Index(idx))), Sel::Name(k))
            } else {
                let sel = E::Select { val: Box::new(E::Str("x".into())), default: Some(Box::new(without)), arms: vec![("x".into(), with)] };
                E::Field(Box::new(sel), Sel::Name(k))
            };
        }
        // a literal tuple with the field
        let k = FIELDS[self.t.choice(FIELDS.len())].to_string();
        let mut fs = vec![(k.clone(), self.expr(ty, depth + 1))];
        if self.t.chance(1, 2) {
            let other = FIELDS[self.t.choice(FIELDS.len())].to_string();
            if other != k {
                let oty = self.gen_type(2);
                let e = self.expr(&oty, depth + 1);
                if self.t.chance(1, 2) {
                    fs.insert(0, (other, e));
                } else {
                    fs.push((other, e));
                }
            }
        }
        E::Field(Box::new(E::Tuple(fs)), Sel::Name(k))
    }

    fn index_access(&mut self, ty: &Ty, depth: u32) -> E {
        self.mark("index");
        let lt = Ty::List(Box::new(ty.clone()));
        let names = self.names_of(&lt);
        let n = 1 + self.t.choice(3);
        let idx = self.t.choice(n) as i64;
        let base = if !names.is_empty() && self.t.chance(1, 2) {
            // index 0 of a list of unknown length may fail; that is fine (outcome compared)
            E::Sym(names[self.t.choice(names.len())].clone())
        } else {
            E::List((0..n).map(|_| self.expr(ty, depth + 1)).collect())
        };
        let sel = if self.t.chance(1, 4) { Sel::Expr(Box::new(self.expr(&Ty::Int, depth + 2))) } else { Sel::Index(idx) };
        E::Field(Box::new(base), sel)
    }

    fn reduce_to(&mut self, ty: &Ty, depth: u32) -> E {
        self.mark("reduce");
        let el = self.gen_type(2);
        match self.t.choice(3) {
            0 => {
                let f = self.literal(&Ty::Func(vec![ty.clone(), el.clone()], Box::new(ty.clone())), depth + 1);
                let acc = self.expr(ty, depth + 1);
                let target = self.expr(&Ty::List(Box::new(el)), depth + 1);
                E::Reduce(Box::new(f), Box::new(acc), Box::new(target))
            }
            1 => {
                self.mark("reduce-tuple");
                let f = self.literal(&Ty::Func(vec![ty.clone(), Ty::Str, el.clone()], Box::new(ty.clone())), depth + 1);
                let acc = self.expr(ty, depth + 1);
                let n = self.t.choice(4);
                let mut fs: Vec<(String, E)> = vec![];
                for _ in 0..n {
                    let k = FIELDS[self.t.choice(FIELDS.len())].to_string();
                    if fs.iter().any(|(k2, _)| *k2 == k) {
                        continue;
                    }
                    fs.push((k, self.expr(&el, depth + 2)));
                }
                E::Reduce(Box::new(f), Box::new(acc), Box::new(E::Tuple(fs)))
            }
            _ => {
                self.mark("reduce-string");
                let f = self.literal(&Ty::Func(vec![ty.clone(), Ty::Str], Box::new(ty.clone())), depth + 1);
                let acc = self.expr(ty, depth + 1);
                let target = self.expr(&Ty::Str, depth + 1);
                E::Reduce(Box::new(f), Box::new(acc), Box::new(target))
            }
        }
    }

    fn module_use(&mut self, ty: &Ty, depth: u32) -> E {
        if !self.cfg.modules {
            return self.specific(ty, depth);
        }
        // a module in scope returning ty?
        let vis = self.visible();
        let cands: Vec<(String, Vec<(String, Ty)>)> = vis
            .iter()
            .filter_map(|(n, t)| match t {
                Ty::Module(ps, r) if **r == *ty => Some((n.clone(), ps.clone())),
                _ => None,
            })
            .collect();
        if cands.is_empty() {
            return self.specific(ty, depth);
        }
        self.mark("module-instantiation");
        let (name, params) = cands[self.t.choice(cands.len())].clone();
        let mut fields = vec![];
        for (k, pt) in &params {
            if self.t.chance(1, 2) {
                fields.push((k.clone(), self.expr(pt, depth + 1)));
            }
        }
        if !self.cfg.well_typed_only && self.t.chance(1, 15) {
            fields.push(("extra".into(), E::Int(1)));
        }
        E::Copy { base: name, path: vec![], fields }
    }

    fn specific(&mut self, ty: &Ty, depth: u32) -> E {
        let d = depth + 1;
        match ty {
            Ty::Int => match self.t.weighted(&[5, 4, 4, 2, 2, 2, 1]) {
                0 => E::Bin(Op::Add, Box::new(self.expr(&Ty::Int, d)), Box::new(self.expr(&Ty::Int, d))),
                1 => E::Bin(Op::Sub, Box::new(self.expr(&Ty::Int, d)), Box::new(self.expr(&Ty::Int, d))),
                2 => E::Bin(Op::Mul, Box::new(self.expr(&Ty::Int, d)), Box::new(self.expr(&Ty::Int, d))),
                3 => E::Bin(Op::Div, Box::new(self.expr(&Ty::Int, d)), Box::new(self.expr(&Ty::Int, d))),
                4 => E::Bin(Op::Mod, Box::new(self.expr(&Ty::Int, d)), Box::new(self.expr(&Ty::Int, d))),
                5 => {
                    self.mark("cast");
                    match self.t.choice(3) {
                        0 => E::Cast("int".to_string(), Box::new(E::Str((*self.t.pick(&["1", "12", "007", "x"])).to_string()))),
                        1 => E::Cast("int".to_string(), Box::new(self.expr(&Ty::Float, d))),
                        _ => E::Cast("int".to_string(), Box::new(self.expr(&Ty::Int, d))),
                    }
                }
                _ => {
                    // length of something via reduce
                    self.mark("reduce");
                    let p1 = self.fresh("p");
                    let p2 = self.fresh("p");
                    let f = E::Func { params: vec![p1.clone(), p2], body: Box::new(E::Bin(Op::Add, Box::new(E::Sym(p1)), Box::new(E::Int(1)))) };
                    let elty = self.gen_type(2);
                    let target = self.expr(&Ty::List(Box::new(elty)), d);
                    E::Reduce(Box::new(f), Box::new(E::Int(0)), Box::new(target))
                }
            },
            Ty::Float => match self.t.weighted(&[4, 3, 3, 2, 2]) {
                0 => E::Bin(Op::Add, Box::new(self.expr(&Ty::Float, d)), Box::new(self.expr(&Ty::Float, d))),
                1 => E::Bin(Op::Sub, Box::new(self.expr(&Ty::Float, d)), Box::new(self.expr(&Ty::Float, d))),
                2 => E::Bin(Op::Mul, Box::new(self.expr(&Ty::Float, d)), Box::new(self.expr(&Ty::Float, d))),
                3 => E::Bin(Op::Div, Box::new(self.expr(&Ty::Float, d)), Box::new(self.expr(&Ty::Float, d))),
                _ => {
                    self.mark("cast");
                    if self.t.chance(1, 2) {
                        E::Cast("float".to_string(), Box::new(self.expr(&Ty::Int, d)))
                    } else {
                        E::Cast("float".to_string(), Box::new(E::Str((*self.t.pick(&["1.5", "2", "0.25", "x"])).to_string())))
                    }
                }
            },
            Ty::Str => match self.t.weighted(&[4, 3, 3, 2, 2, 2]) {
                0 => E::Bin(Op::Add, Box::new(self.expr(&Ty::Str, d)), Box::new(self.expr(&Ty::Str, d))),
                1 => self.format_list(d),
                2 => self.format_expr(d),
                3 => {
                    self.mark("cast");
                    match self.t.choice(3) {
                        0 => E::Cast("str".to_string(), Box::new(self.expr(&Ty::Int, d))),
                        1 => E::Cast("str".to_string(), Box::new(self.expr(&Ty::Bool, d))),
                        _ => E::Cast("str".to_string(), Box::new(self.expr(&Ty::Float, d))),
                    }
                }
                4 => {
                    self.mark("map-string");
                    let f = self.literal(&Ty::Func(vec![Ty::Str], Box::new(Ty::Str)), d);
                    E::Map(Box::new(f), Box::new(self.expr(&Ty::Str, d)))
                }
                _ => {
                    self.mark("filter-string");
                    let f = self.literal(&Ty::Func(vec![Ty::Str], Box::new(Ty::Bool)), d);
                    E::Filter(Box::new(f), Box::new(self.expr(&Ty::Str, d)))
                }
            },
            Ty::Bool => match self.t.weighted(&[4, 4, 4, 3, 3, 2, 2, 2, 1]) {
                0 => {
                    self.mark("and-or");
                    let l = self.expr(&Ty::Bool, d);
                    let r = self.rhs_bool(d);
                    E::Bin(Op::And, Box::new(l), Box::new(r))
                }
                1 => {
                    self.mark("and-or");
                    let l = self.expr(&Ty::Bool, d);
                    let r = self.rhs_bool(d);
                    E::Bin(Op::Or, Box::new(l), Box::new(r))
                }
                2 => {
                    let op = self.t.pick(&[Op::Lt, Op::Gt, Op::Le, Op::Ge]).clone();
                    let nt = if self.t.chance(1, 4) { Ty::Float } else { Ty::Int };
                    E::Bin(op, Box::new(self.expr(&nt, d)), Box::new(self.expr(&nt, d)))
                }
                3 => {
                    let op = if self.t.chance(1, 3) { Op::Ne } else { Op::Eq };
                    let et = self.gen_type(1);
                    let l = self.expr(&et, d);
                    let mut r = if self.t.chance(1, 8) { E::Null } else { self.expr(&et, d) };
                    if let (E::Tuple(lf), true) = (&l, self.t.chance(1, 3)) {
                        // the same tuple with its fields in another order
                        if lf.len() >= 2 {
                            self.mark("eq-permuted-tuple");
                            let mut rf = lf.clone();
                            rf.rotate_left(1);
                            r = E::Tuple(rf);
                        }
                    }
                    E::Bin(op, Box::new(l), Box::new(r))
                }
                4 => E::Not(Box::new(self.expr(&Ty::Bool, d))),
                5 => {
                    self.mark("in");
                    if self.t.chance(1, 2) {
                        // field test on a tuple
                        let n = 1 + self.t.choice(3);
                        let mut fs: Vec<(String, E)> = vec![];
                        for _ in 0..n {
                            let k = FIELDS[self.t.choice(FIELDS.len())].to_string();
                            if fs.iter().any(|(k2, _)| *k2 == k) {
                                continue;
                            }
                            fs.push((k, E::Int(1)));
                        }
                        let name = FIELDS[self.t.choice(FIELDS.len())].to_string();
                        let left = if self.t.chance(1, 2) { E::Sym(name) } else { E::Str(name) };
                        E::Bin(Op::In, Box::new(left), Box::new(E::Tuple(fs)))
                    } else {
                        let et = self.gen_type(1);
                        let l = self.expr(&et, d);
                        let r = self.expr(&Ty::List(Box::new(et)), d);
                        E::Bin(Op::In, Box::new(l), Box::new(r))
                    }
                }
                6 => {
                    self.mark("is");
                    let et = self.gen_type(1);
                    let l = self.expr(&et, d);
                    let tn = *self.t.pick(&["null", "str", "int", "float", "bool", "tuple", "list", "func", "module"]);
                    E::Bin(Op::Is, Box::new(l), Box::new(E::Str(tn.to_string())))
                }
                7 => {
                    self.mark("cast");
                    E::Cast("bool".to_string(), Box::new(E::Str((*self.t.pick(&["true", "false", "x"])).to_string())))
                }
                _ => {
                    self.mark("regex");
                    let op = if self.t.chance(1, 2) { Op::ReMatch } else { Op::ReNotMatch };
                    E::Bin(op, Box::new(self.expr(&Ty::Str, d)), Box::new(E::Str((*self.t.pick(&["a", "foo", "b", "oo"])).to_string())))
                }
            },
            Ty::Null => E::Null,
            Ty::List(el) => match self.t.weighted(&[4, 3, 3, 3, if **el == Ty::Int { 4 } else { 0 }]) {
                0 => self.literal(ty, depth),
                1 => E::Bin(Op::Add, Box::new(self.expr(ty, d)), Box::new(self.expr(ty, d))),
                2 => {
                    self.mark("map-list");
                    let src = self.gen_type(2);
                    let f = self.literal(&Ty::Func(vec![src.clone()], el.clone()), d);
                    E::Map(Box::new(f), Box::new(self.expr(&Ty::List(Box::new(src)), d)))
                }
                3 => {
                    self.mark("filter-list");
                    let rt = if self.t.chance(1, 4) { Ty::Null } else { Ty::Bool };
                    let f = self.literal(&Ty::Func(vec![(**el).clone()], Box::new(rt)), d);
                    E::Filter(Box::new(f), Box::new(self.expr(ty, d)))
                }
                _ => {
                    self.mark("range");
                    let a = self.small_int(d);
                    let b = self.small_int(d);
                    let step = if self.t.chance(1, 3) { Some(Box::new(self.small_int(d))) } else { None };
                    E::Range(Box::new(a), step, Box::new(b))
                }
            },
            Ty::Tuple(fs) => match self.t.weighted(&[4, 4, 2, 2]) {
                0 => self.literal(ty, depth),
                1 => self.copy_of(fs, d),
                2 => {
                    self.mark("filter-tuple");
                    let vt = fs.first().map(|(_, t)| t.clone()).unwrap_or(Ty::Int);
                    let f = self.literal(&Ty::Func(vec![Ty::Str, vt], Box::new(Ty::Bool)), d);
                    // filtering may drop fields: the static type is only an approximation here
                    E::Filter(Box::new(f), Box::new(self.literal(ty, d)))
                }
                _ => {
                    self.mark("map-tuple");
                    let vt = fs.first().map(|(_, t)| t.clone()).unwrap_or(Ty::Int);
                    let pn = self.fresh("p");
                    let pv = self.fresh("p");
                    // identity-like mapper: [name, value]
                    let body = if self.t.chance(1, 2) {
                        E::List(vec![E::Sym(pn.clone()), E::Sym(pv.clone())])
                    } else {
                        E::List(vec![E::Bin(Op::Add, Box::new(E::Sym(pn.clone())), Box::new(E::Str("_x".into()))), E::Sym(pv.clone())])
                    };
                    let _ = vt;
                    E::Map(Box::new(E::Func { params: vec![pn, pv], body: Box::new(body) }), Box::new(self.literal(ty, d)))
                }
            },
            Ty::Func(..) | Ty::Module(..) => self.literal(ty, depth),
        }
    }

    /// right operand of && / ||: usually boolean; rarely something the short-circuit must skip
    fn rhs_bool(&mut self, d: u32) -> E {
        if !self.cfg.well_typed_only && self.t.chance(1, 8) {
            self.mark("short-circuit-skips-failure");
            return self.wrong(&Ty::Bool, d);
        }
        self.expr(&Ty::Bool, d)
    }

    fn small_int(&mut self, d: u32) -> E {
        if self.t.chance(1, 4) {
            self.expr(&Ty::Int, d + 2)
        } else {
            E::Int(self.t.range(0, 12))
        }
    }

    fn scalar_arg(&mut self, d: u32) -> E {
        let ty = match self.t.choice(5) {
            0 => Ty::Str,
            1 => Ty::Bool,
            2 => Ty::Null,
            3 => Ty::Float,
            _ => Ty::Int,
        };
        self.expr(&ty, d)
    }

    fn format_list(&mut self, d: u32) -> E {
        self.mark("format-list");
        let holes = 1 + self.t.choice(3);
        let lits = ["", "a", " ", "x=", "@", "\\", "-", "/"];
        let pieces: Vec<String> = (0..=holes).map(|_| (*self.t.pick(&lits)).to_string()).collect();
        let mut args: Vec<E> = (0..holes).map(|_| self.scalar_arg(d)).collect();
        if !self.cfg.well_typed_only && self.t.chance(1, 15) {
            self.mark("format-arg-mismatch");
            // `% ()` is not syntax: keep at least one argument
            if args.len() <= 1 || self.t.chance(1, 2) {
                args.push(E::Int(1));
            } else {
                args.pop();
            }
        }
        E::FormatList(pieces, args)
    }

    fn format_expr(&mut self, d: u32) -> E {
        self.mark("format-expr");
        // argument: a tuple, list or scalar bound to `item` inside the template
        let (arg, item_ty) = match self.t.choice(3) {
            0 => {
                let t = Ty::Tuple(vec![("a".into(), Ty::Int), ("b".into(), Ty::Str)]);
                (self.literal(&t, d), t)
            }
            1 => {
                let t = Ty::List(Box::new(Ty::Int));
                (E::List(vec![E::Int(self.t.range(0, 9)), E::Int(self.t.range(0, 9))]), t)
            }
            _ => {
                let names = self.names_of(&Ty::Int);
                if !names.is_empty() {
                    (E::Sym(names[self.t.choice(names.len())].clone()), Ty::Int)
                } else {
                    (E::Int(self.t.range(0, 9)), Ty::Int)
                }
            }
        };
        let n = 1 + self.t.choice(3);
        let mut parts = vec![];
        for _ in 0..n {
            if self.t.chance(1, 2) {
                parts.push(Part::Lit((*self.t.pick(&["", "v=", " ", "@", "-"])).to_string()));
            }
            // embedded expression over `item` (and outer names)
            let mark = self.scope.len();
            self.scope.push(("item".into(), item_ty.clone()));
            let inner = match &item_ty {
                Ty::Tuple(_) => match self.t.choice(3) {
                    0 => E::Field(Box::new(E::Sym("item".into())), Sel::Name("a".into())),
                    1 => E::Field(Box::new(E::Sym("item".into())), Sel::Name("b".into())),
                    _ => E::Bin(Op::Add, Box::new(E::Field(Box::new(E::Sym("item".into())), Sel::Name("a".into()))), Box::new(E::Int(1))),
                },
                Ty::List(_) => E::Field(Box::new(E::Sym("item".into())), Sel::Index(self.t.choice(2) as i64)),
                _ => match self.t.choice(3) {
                    0 => E::Sym("item".into()),
                    1 => E::Bin(Op::Add, Box::new(E::Sym("item".into())), Box::new(E::Int(1))),
                    _ => {
                        let names = self.names_of(&Ty::Int);
                        E::Sym(names[self.t.choice(names.len())].clone())
                    }
                },
            };
            self.scope.truncate(mark);
            parts.push(Part::Expr(inner));
        }
        E::FormatExpr(parts, Box::new(arg))
    }

    fn copy_of(&mut self, fs: &[(String, Ty)], d: u32) -> E {
        self.mark("copy");
        let want = Ty::Tuple(fs.to_vec());
        let names = self.names_of(&want);
        if names.is_empty() {
            return self.literal(&want, d);
        }
        let base = names[self.t.choice(names.len())].clone();
        // override some fields (same type), with `self` visible
        let mark = self.scope.len();
        self.scope.push(("self".into(), want.clone()));
        let mut fields = vec![];
        for (k, t) in fs {
            if self.t.chance(1, 2) {
                let printable: Vec<String> = fs.iter().filter(|(_, ft)| matches!(ft, Ty::Int | Ty::Str | Ty::Bool)).map(|(k2, _)| k2.clone()).collect();
                if *t == Ty::Str && !printable.is_empty() && self.t.chance(1, 4) {
                    // `self` reaching into a format expression: as its argument or inside the template
                    self.mark("copy-self-in-format");
                    let k2 = printable[self.t.choice(printable.len())].clone();
                    let e = if self.t.chance(1, 2) {
                        E::FormatExpr(vec![Part::Lit("<".into()), Part::Expr(E::Field(Box::new(E::Sym("item".into())), Sel::Name(k2))), Part::Lit(">".into())], Box::new(E::Sym("self".into())))
                    } else {
                        E::FormatExpr(vec![Part::Expr(E::Field(Box::new(E::Sym("self".into())), Sel::Name(k2))), Part::Lit("/".into()), Part::Expr(E::Sym("item".into()))], Box::new(E::Int(7)))
                    };
                    fields.push((k.clone(), e));
                } else if self.t.chance(1, 4) {
                    self.mark("copy-self");
                    // self.k op something when possible
                    let sf = E::Field(Box::new(E::Sym("self".into())), Sel::Name(k.clone()));
                    let e = match t {
                        Ty::Int => E::Bin(Op::Add, Box::new(sf), Box::new(E::Int(1))),
                        Ty::Str => E::Bin(Op::Add, Box::new(sf), Box::new(E::Str("!".into()))),
                        _ => sf,
                    };
                    fields.push((k.clone(), e));
                } else if self.t.chance(1, 6) {
                    // `self` used only as the base of an inner copy: base{k = self{k2 = literal}.k}
                    self.mark("copy-self-as-copy-base");
                    let (k2, t2) = fs[self.t.choice(fs.len())].clone();
                    let lit = self.literal(&t2, d);
                    let inner = E::Copy { base: "self".into(), path: vec![], fields: vec![(k2, lit)] };
                    fields.push((k.clone(), E::Field(Box::new(inner), Sel::Name(k.clone()))));
                } else if !self.cfg.well_typed_only && self.t.chance(1, 10) {
                    self.mark("copy-type-change");
                    let other = if *t == Ty::Int { Ty::Str } else { Ty::Int };
                    fields.push((k.clone(), self.literal(&other, d)));
                } else {
                    fields.push((k.clone(), self.expr(t, d)));
                }
            }
        }
        self.scope.truncate(mark);
        // the result type keeps the base's fields; new fields would change it, so none are added here
        E::Copy { base, path: vec![], fields }
    }

    /// A statement; may add a binding to the scope.
    pub fn stmt(&mut self) -> Stmt {
        let tuples_in_scope: Vec<Vec<(String, Ty)>> = self
            .visible()
            .into_iter()
            .filter_map(|(n, t)| match t {
                Ty::Tuple(fs) if n != "self" && n != "mod" && n != "item" && !fs.is_empty() && fs.iter().all(|(_, ft)| !matches!(ft, Ty::Func(..) | Ty::Module(..))) => Some(fs),
                _ => None,
            })
            .collect();
        let k = self.t.weighted(&[10, if self.cfg.funcs { 4 } else { 0 }, if self.cfg.modules { 2 } else { 0 }, 1, 2, if self.cfg.funcs { 2 } else { 0 }, if tuples_in_scope.is_empty() { 0 } else { 3 }, 1, 1]);
        match k {
            8 => {
                // a list grown from the empty list, bound, then indexed by a literal
                self.mark("list-grown-from-empty");
                let items = vec![E::Int(self.t.range(0, 9)), E::Int(self.t.range(0, 9))];
                let grown = match self.t.choice(3) {
                    0 => {
                        let (a, x) = (self.fresh("p"), self.fresh("p"));
                        let body = E::Bin(Op::Add, Box::new(E::Sym(a.clone())), Box::new(E::List(vec![E::Bin(Op::Mul, Box::new(E::Sym(x.clone())), Box::new(E::Int(2)))])));
                        E::Reduce(Box::new(E::Func { params: vec![a, x], body: Box::new(body) }), Box::new(E::List(vec![])), Box::new(E::List(items)))
                    }
                    1 => E::Bin(Op::Add, Box::new(E::List(vec![])), Box::new(E::List(items))),
                    _ => E::Bin(Op::Add, Box::new(E::List(items)), Box::new(E::List(vec![]))),
                };
                let name = self.fresh("v");
                self.scope.push((name.clone(), Ty::List(Box::new(Ty::Int))));
                let r = self.fresh("v");
                self.scope.push((r.clone(), Ty::Int));
                self.pending.push(Stmt::Let(r, E::Field(Box::new(E::Sym(name.clone())), Sel::Index(self.t.choice(2) as i64))));
                Stmt::Let(name, grown)
            }
            7 => {
                // lists of different lengths and element types joined (no binding: the result has
                // no type of this generator's)
                self.mark("mixed-list-concatenation");
                let mut side = |g: &mut Self| -> E {
                    let n = g.t.choice(5);
                    let mixed = g.t.chance(1, 2);
                    E::List((0..n).map(|i| if mixed && i % 2 == 1 { E::Str(STRS[g.t.choice(STRS.len())].to_string()) } else { E::Int(g.t.range(0, 9)) }).collect())
                };
                let l = side(self);
                let r = side(self);
                Stmt::Expr(E::Bin(Op::Add, Box::new(l), Box::new(r)))
            }
            6 => {
                // a copy of a tuple that is in scope
                let fs = tuples_in_scope[self.t.choice(tuples_in_scope.len())].clone();
                let e = self.copy_of(&fs, 0);
                let name = self.fresh("v");
                self.scope.push((name.clone(), Ty::Tuple(fs)));
                Stmt::Let(name, e)
            }
            5 => {
                // a function that reads several fields of one tuple parameter
                self.mark("record-function");
                let rec_ty = Ty::Tuple(vec![("a".into(), Ty::Int), ("b".into(), Ty::Int), ("c".into(), Ty::Str), ("d".into(), Ty::Int)]);
                let taken: Vec<String> = vec![];
                let p = self.param_name(&taken);
                let fld = |k: &str| E::Field(Box::new(E::Sym(p.clone())), Sel::Name(k.to_string()));
                let (ret, body) = match self.t.choice(7) {
                    5 => (Ty::Int, E::Bin(Op::Add, Box::new(E::Bin(Op::Mul, Box::new(fld("a")), Box::new(fld("b")))), Box::new(fld("d")))),
                    6 => (Ty::List(Box::new(Ty::Int)), E::List(vec![fld("d"), fld("b"), fld("a"), fld("d")])),
                    0 => (Ty::Int, E::Bin(Op::Add, Box::new(fld("a")), Box::new(fld("b")))),
                    1 => (Ty::Bool, E::Bin(Op::Lt, Box::new(fld("b")), Box::new(fld("a")))),
                    2 => (Ty::List(Box::new(Ty::Int)), E::List(vec![fld("b"), fld("a"), fld("a")])),
                    3 => (Ty::Str, E::Bin(Op::Add, Box::new(fld("c")), Box::new(fld("c")))),
                    _ => (Ty::Tuple(vec![("b".into(), Ty::Str), ("a".into(), Ty::Int)]), E::Tuple(vec![("b".into(), fld("c")), ("a".into(), E::Bin(Op::Mul, Box::new(fld("a")), Box::new(fld("b"))))])),
                };
                let ty = Ty::Func(vec![rec_ty.clone()], Box::new(ret.clone()));
                let name = self.fresh("f");
                self.scope.push((name.clone(), ty));
                if self.t.chance(2, 3) {
                    // and call it right away
                    let arg = self.literal(&rec_ty, 2);
                    let r = self.fresh("v");
                    self.scope.push((r.clone(), ret));
                    self.pending.push(Stmt::Let(r, E::Call { callee: Callee::Name(name.clone()), args: vec![arg] }));
                }
                Stmt::Let(name, E::Func { params: vec![p.clone()], body: Box::new(body) })
            }
            0 => {
                let ty = self.gen_type(0);
                let e = self.expr(&ty, 0);
                let name = self.fresh("v");
                self.scope.push((name.clone(), ty));
                Stmt::Let(name, e)
            }
            1 => {
                let n = self.t.choice(3);
                let params: Vec<Ty> = (0..n).map(|_| self.gen_type(1)).collect();
                let ret = self.gen_type(1);
                let ty = Ty::Func(params, Box::new(ret));
                let e = self.literal(&ty, 0);
                let name = self.fresh("f");
                self.scope.push((name.clone(), ty));
                Stmt::Let(name, e)
            }
            2 => {
                let n = self.t.choice(3);
                let mut params: Vec<(String, Ty)> = vec![];
                for _ in 0..n {
                    let k = FIELDS[self.t.choice(FIELDS.len())].to_string();
                    if params.iter().any(|(k2, _)| *k2 == k) {
                        continue;
                    }
                    params.push((k, self.gen_type(2)));
                }
                let ret = self.gen_type(1);
                let ty = Ty::Module(params.clone(), Box::new(ret.clone()));
                let e = self.module_literal(&params, &ret, 0);
                let name = self.fresh("m");
                self.scope.push((name.clone(), ty));
                Stmt::Let(name, e)
            }
            3 => {
                // tuple holding a function: calls through a field
                let ret = self.gen_type(1);
                let fty = Ty::Func(vec![Ty::Int], Box::new(ret));
                let f = self.literal(&fty, 1);
                let ty = Ty::Tuple(vec![("n".into(), Ty::Int), ("f".into(), fty)]);
                let name = self.fresh("t");
                self.scope.push((name.clone(), ty));
                Stmt::Let(name, E::Tuple(vec![("n".into(), E::Int(self.t.range(0, 9))), ("f".into(), f)]))
            }
            _ => {
                let ty = self.gen_type(0);
                Stmt::Expr(self.expr(&ty, 0))
            }
        }
    }

    pub fn program(&mut self) -> Vec<Stmt> {
        let n = 1 + self.t.choice(self.cfg.max_stmts);
        let mut out = vec![];
        for _ in 0..n {
            out.push(self.stmt());
            // statements that belong right after the one just made
            out.append(&mut self.pending);
        }
        // a rare rebinding (must fail)
        if !self.cfg.well_typed_only && self.t.chance(1, 40) {
            if let Some(Stmt::Let(name, _)) = out.iter().find(|s| matches!(s, Stmt::Let(..))).cloned() {
                self.mark("rebinding");
                out.push(Stmt::Let(name, E::Int(1)));
            }
        }
        out
    }
}
