//! /verif/KNOWN_FINDINGS loader.  The file is committed and never written at
//! run time.  Two line shapes:
//!   open: property=<id> key=<signature> replay=<path under /verif> <what fails>
//!   fixed: property=<id> <commit> <what failed>

#[derive(Clone, Debug)]
pub struct OpenFinding {
    pub property: String,
    pub key: String,
    pub replay: String,
    pub what: String,
}

pub fn verif_root() -> std::path::PathBuf {
    std::env::var("VERIF_ROOT")
        .map(std::path::PathBuf::from)
        .unwrap_or_else(|_| std::path::PathBuf::from("/verif"))
}

pub fn load_open(property: &str) -> Vec<OpenFinding> {
    let path = verif_root().join("KNOWN_FINDINGS");
    let text = match std::fs::read_to_string(&path) {
        Ok(t) => t,
        Err(_) => return vec![],
    };
    let mut out = vec![];
    for line in text.lines() {
        let line = line.trim();
        let rest = match line.strip_prefix("open:") {
            Some(r) => r.trim(),
            None => continue,
        };
        let mut prop = None;
        let mut key = None;
        let mut replay = None;
        let mut what = vec![];
        for w in rest.split_whitespace() {
            if prop.is_none() && w.starts_with("property=") {
                prop = Some(w["property=".len()..].to_string());
            } else if key.is_none() && w.starts_with("key=") {
                key = Some(w["key=".len()..].to_string());
            } else if replay.is_none() && w.starts_with("replay=") {
                replay = Some(w["replay=".len()..].to_string());
            } else {
                what.push(w);
            }
        }
        if let (Some(p), Some(k), Some(r)) = (prop, key, replay) {
            if p == property {
                out.push(OpenFinding {
                    property: p,
                    key: k,
                    replay: r,
                    what: what.join(" "),
                });
            }
        }
    }
    out
}
