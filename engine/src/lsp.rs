//! A minimal JSON-RPC / LSP client driving the real `ucg lsp` over stdio.

use serde_json::{json, Value};
use std::collections::BTreeMap;
use std::io::{BufRead, BufReader, Read, Write};
use std::path::Path;
use std::process::{Child, ChildStdin, Command, Stdio};
use std::sync::mpsc::{channel, Receiver, RecvTimeoutError};
use std::sync::{Arc, Mutex};
use std::time::Duration;

pub const ANSWER_TIMEOUT: Duration = Duration::from_secs(30);

#[derive(Debug)]
pub enum LspErr {
    /// the process closed its stdout / exited / the pipe broke
    Died(String),
    /// no answer within the wall-clock watchdog (inconclusive, never a violation)
    Timeout,
}

pub struct Server {
    child: Child,
    stdin: Option<ChildStdin>,
    rx: Receiver<Value>,
    stderr: Arc<Mutex<String>>,
    next_id: i64,
    /// last published diagnostics per uri
    pub diags: BTreeMap<String, Value>,
    /// every publishDiagnostics seen, in order
    pub published: Vec<(String, Value)>,
}

fn frame(v: &Value) -> Vec<u8> {
    let body = serde_json::to_vec(v).unwrap();
    let mut out = format!("Content-Length: {}\r\n\r\n", body.len()).into_bytes();
    out.extend(body);
    out
}

impl Server {
    pub fn start(bin: &Path, root: &Path, home: &Path) -> Result<Server, LspErr> {
        let mut child = Command::new(bin)
            .arg("lsp")
            .current_dir(root)
            .env_clear()
            .env("HOME", home)
            .env("RUST_BACKTRACE", "0")
            .stdin(Stdio::piped())
            .stdout(Stdio::piped())
            .stderr(Stdio::piped())
            .spawn()
            .map_err(|e| LspErr::Died(format!("cannot start the server: {}", e)))?;
        let stdin = child.stdin.take();
        let stdout = child.stdout.take().unwrap();
        let mut stderr_pipe = child.stderr.take().unwrap();
        let (tx, rx) = channel();
        std::thread::spawn(move || {
            let mut r = BufReader::new(stdout);
            loop {
                let mut len: Option<usize> = None;
                loop {
                    let mut line = String::new();
                    match r.read_line(&mut line) {
                        Ok(0) | Err(_) => return,
                        Ok(_) => {}
                    }
                    let l = line.trim_end();
                    if l.is_empty() {
                        break;
                    }
                    if let Some(v) = l.to_ascii_lowercase().strip_prefix("content-length:") {
                        len = v.trim().parse().ok();
                    }
                }
                let n = match len {
                    Some(n) => n,
                    None => return,
                };
                let mut body = vec![0u8; n];
                if r.read_exact(&mut body).is_err() {
                    return;
                }
                match serde_json::from_slice::<Value>(&body) {
                    Ok(v) => {
                        if tx.send(v).is_err() {
                            return;
                        }
                    }
                    Err(_) => return,
                }
            }
        });
        let stderr = Arc::new(Mutex::new(String::new()));
        let se = stderr.clone();
        std::thread::spawn(move || {
            let mut buf = [0u8; 4096];
            loop {
                match stderr_pipe.read(&mut buf) {
                    Ok(0) | Err(_) => return,
                    Ok(n) => {
                        let mut g = se.lock().unwrap();
                        if g.len() < 20_000 {
                            g.push_str(&String::from_utf8_lossy(&buf[..n]));
                        }
                    }
                }
            }
        });
        let mut s = Server { child, stdin, rx, stderr, next_id: 1, diags: BTreeMap::new(), published: vec![] };
        let root_uri = format!("file://{}", root.display());
        s.request("initialize", json!({"processId": null, "rootUri": root_uri, "capabilities": {}}))?;
        s.notify("initialized", json!({}))?;
        Ok(s)
    }

    pub fn stderr_text(&self) -> String {
        // give the collector thread a moment after a death
        std::thread::sleep(Duration::from_millis(30));
        self.stderr.lock().unwrap().clone()
    }

    fn died(&mut self, what: &str) -> LspErr {
        let status = match self.child.try_wait() {
            Ok(Some(st)) => format!("{}", st),
            _ => {
                std::thread::sleep(Duration::from_millis(100));
                match self.child.try_wait() {
                    Ok(Some(st)) => format!("{}", st),
                    _ => "still running".into(),
                }
            }
        };
        LspErr::Died(format!("{} ({}); stderr: {}", what, status, self.stderr_text()))
    }

    fn send(&mut self, v: &Value) -> Result<(), LspErr> {
        let bytes = frame(v);
        let ok = match self.stdin.as_mut() {
            Some(si) => si.write_all(&bytes).and_then(|_| si.flush()).is_ok(),
            None => false,
        };
        if ok {
            Ok(())
        } else {
            Err(self.died("the server no longer reads its input"))
        }
    }

    pub fn notify(&mut self, method: &str, params: Value) -> Result<(), LspErr> {
        self.send(&json!({"jsonrpc": "2.0", "method": method, "params": params}))
    }

    /// Send a request and wait for its response; notifications arriving meanwhile are recorded.
    pub fn request(&mut self, method: &str, params: Value) -> Result<Value, LspErr> {
        let id = self.next_id;
        self.next_id += 1;
        self.send(&json!({"jsonrpc": "2.0", "id": id, "method": method, "params": params}))?;
        loop {
            match self.rx.recv_timeout(ANSWER_TIMEOUT) {
                Ok(v) => {
                    if v.get("id").and_then(|i| i.as_i64()) == Some(id) && v.get("method").is_none() {
                        return Ok(v);
                    }
                    if v.get("method").and_then(|m| m.as_str()) == Some("textDocument/publishDiagnostics") {
                        let uri = v["params"]["uri"].as_str().unwrap_or("").to_string();
                        let d = v["params"]["diagnostics"].clone();
                        self.diags.insert(uri.clone(), d.clone());
                        self.published.push((uri, d));
                    }
                }
                Err(RecvTimeoutError::Timeout) => return Err(LspErr::Timeout),
                Err(RecvTimeoutError::Disconnected) => {
                    return Err(self.died(&format!("the server closed its output without answering `{}`", method)));
                }
            }
        }
    }

    /// A request that any live server answers cheaply: everything sent before has been handled
    /// once it returns.
    pub fn barrier(&mut self) -> Result<(), LspErr> {
        self.request("textDocument/semanticTokens/full", json!({"textDocument": {"uri": "file:///nonexistent/barrier.ucg"}})).map(|_| ())
    }

    pub fn kill(mut self) {
        self.stdin = None;
        let _ = self.child.kill();
        let _ = self.child.wait();
    }
}
