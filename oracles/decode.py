#!/usr/bin/env python3
"""Independent decoder service for the ucg checks (C03, C12, C14, C15).

Line-delimited JSON on stdin/stdout.  Request:
    {"id": n, "fmt": "json|yaml|yamlmulti|toml|xml", "data_b64": "..."}
Reply:
    {"id": n, "ok": true, "tree": <tagged tree>}   or   {"id": n, "ok": false, "error": "..."}

Tagged tree: {"t":"null"} {"t":"bool","v":true} {"t":"int","v":"<decimal>"}
{"t":"float","v":"<float.hex()|nan|inf|-inf>"} {"t":"str","v":"..."}
{"t":"list","v":[...]} {"t":"map","v":[[key, tree], ...]} {"t":"datetime","v":"..."}
XML: {"decl": {...}|null, "root": {"t":"elem","name":..,"attrs":[[k,v]..],"children":[..]}}
with text children {"t":"text","v":".."}.

Decoders: json (stdlib), tomllib (stdlib, TOML 1.0), PyYAML scanner/parser/composer
with a YAML 1.2 core-schema resolver implemented here (serde_yaml writes YAML 1.2:
`yes`, `on`, `0777` are strings), expat for XML.
"""
import sys, json, base64, re, math

try:
    import tomllib
except Exception:  # pragma: no cover
    tomllib = None
try:
    import yaml
except Exception:  # pragma: no cover
    yaml = None
import xml.parsers.expat as expat


def tag_float(f):
    if math.isnan(f):
        return {"t": "float", "v": "nan"}
    if math.isinf(f):
        return {"t": "float", "v": "inf" if f > 0 else "-inf"}
    return {"t": "float", "v": float(f).hex()}


def check_str(v):
    for ch in v:
        if 0xD800 <= ord(ch) <= 0xDFFF:
            raise ValueError("lone surrogate in string")
    return v


def tag_py(v):
    if v is None:
        return {"t": "null"}
    if v is True or v is False:
        return {"t": "bool", "v": bool(v)}
    if isinstance(v, int):
        return {"t": "int", "v": str(v)}
    if isinstance(v, float):
        return tag_float(v)
    if isinstance(v, str):
        return {"t": "str", "v": check_str(v)}
    if isinstance(v, list):
        return {"t": "list", "v": [tag_py(x) for x in v]}
    if isinstance(v, Pairs):
        return {"t": "map", "v": [[check_str(k), tag_py(x)] for k, x in v.items]}
    if isinstance(v, dict):
        return {"t": "map", "v": [[k, tag_py(x)] for k, x in v.items()]}
    return {"t": "datetime", "v": str(v)}


class Pairs:
    def __init__(self, items):
        self.items = items


def dec_json(data):
    text = data.decode("utf-8")  # strict: JSON text must be UTF-8

    def bad_const(c):
        raise ValueError("non-standard JSON constant " + c)

    v = json.loads(text, object_pairs_hook=lambda items: Pairs(items), parse_constant=bad_const)
    return tag_py(v)


# ---------------------------------------------------------------- YAML 1.2 core schema
RE_NULL = re.compile(r"^(null|Null|NULL|~|)$")
RE_BOOL = re.compile(r"^(true|True|TRUE|false|False|FALSE)$")
RE_INT = re.compile(r"^[-+]?[0-9]+$")
RE_OCT = re.compile(r"^0o[0-7]+$")
RE_HEX = re.compile(r"^0x[0-9a-fA-F]+$")
RE_FLOAT = re.compile(r"^[-+]?(\.[0-9]+|[0-9]+(\.[0-9]*)?)([eE][-+]?[0-9]+)?$")
RE_INF = re.compile(r"^[-+]?(\.inf|\.Inf|\.INF)$")
RE_NAN = re.compile(r"^(\.nan|\.NaN|\.NAN)$")


RE_AMBIG = re.compile(r"^[-+]?0[0-9_]+(\.[0-9]*)?([eE][-+]?[0-9]+)?$|^[-+]0[xo]|^[-+]?[0-9][0-9_]*_[0-9_]*$|^0b[01_]+$")


def resolve_plain(s):
    if RE_AMBIG.match(s):
        # leading zeros (octal in YAML 1.1), signed hex/octal, digit separators, binary:
        # YAML versions and libraries disagree; outside the agreed subset
        return {"t": "datetime", "v": "ambiguous-number " + s}
    if RE_NULL.match(s):
        return {"t": "null"}
    if RE_BOOL.match(s):
        return {"t": "bool", "v": s.lower() == "true"}
    if RE_INT.match(s):
        return {"t": "int", "v": str(int(s, 10))}
    if RE_OCT.match(s):
        return {"t": "int", "v": str(int(s[2:], 8))}
    if RE_HEX.match(s):
        return {"t": "int", "v": str(int(s[2:], 16))}
    if RE_FLOAT.match(s):
        return tag_float(float(s))
    if RE_INF.match(s):
        return {"t": "float", "v": "-inf" if s.startswith("-") else "inf"}
    if RE_NAN.match(s):
        return {"t": "float", "v": "nan"}
    return {"t": "str", "v": s}


def yaml_node(node):
    if isinstance(node, yaml.ScalarNode):
        tag = node.tag
        # explicit tags other than the core ones are reported, not interpreted
        if node.style is None:  # plain scalar
            if tag not in ("tag:yaml.org,2002:str", "tag:yaml.org,2002:null", "tag:yaml.org,2002:bool",
                           "tag:yaml.org,2002:int", "tag:yaml.org,2002:float", "tag:yaml.org,2002:timestamp",
                           "tag:yaml.org,2002:value", "tag:yaml.org,2002:merge"):
                raise ValueError("explicit tag " + tag)
            return resolve_plain(node.value)
        if tag not in ("tag:yaml.org,2002:str",):
            # quoted/block scalar with an explicit non-str tag
            if tag.startswith("tag:yaml.org,2002:") and tag.split(":")[-1] in ("null", "bool", "int", "float", "timestamp", "value", "merge", "binary"):
                # PyYAML's implicit resolver does not apply to quoted scalars; an explicit tag would
                if node.tag != "tag:yaml.org,2002:str":
                    raise ValueError("explicit tag " + tag)
        return {"t": "str", "v": check_str(node.value)}
    if isinstance(node, yaml.SequenceNode):
        return {"t": "list", "v": [yaml_node(n) for n in node.value]}
    if isinstance(node, yaml.MappingNode):
        out = []
        for k, v in node.value:
            kt = yaml_node(k)
            out.append([kt, yaml_node(v)])
        return {"t": "map", "v": out}
    raise ValueError("unknown node")


def yaml_compose_all(text):
    # a loader whose implicit resolver is empty for quoted scalars and whose
    # plain scalars we resolve ourselves (style is None)
    loader = yaml.SafeLoader(text)
    try:
        docs = []
        while loader.check_node():
            docs.append(loader.get_node())
        return docs
    finally:
        loader.dispose()


def dec_yaml(data, multi=False):
    if yaml is None:
        raise RuntimeError("PyYAML missing")
    text = data.decode("utf-8")
    docs = yaml_compose_all(text)
    trees = []
    for d in docs:
        t = yaml_node(d)
        trees.append(fix_keys(t))
    if multi:
        return {"t": "docs", "v": trees}
    if len(docs) == 0:
        return {"t": "null"}
    if len(docs) != 1:
        raise ValueError("expected a single document, found %d" % len(docs))
    return trees[0]


def fix_keys(t):
    """map keys: keep the resolved key tree (ucg keys are strings; a key that resolves to
    a non-string is visible to the caller as such)"""
    if t["t"] == "map":
        out = []
        for k, v in t["v"]:
            out.append([k, fix_keys(v)])
        return {"t": "map", "v": out, "tagged_keys": True}
    if t["t"] == "list":
        return {"t": "list", "v": [fix_keys(x) for x in t["v"]]}
    return t


def dec_toml(data):
    if tomllib is None:
        raise RuntimeError("tomllib missing")
    text = data.decode("utf-8")
    v = tomllib.loads(text)
    return tag_py(v)


# ---------------------------------------------------------------- XML
def dec_xml(data):
    p = expat.ParserCreate(namespace_separator=None)
    p.buffer_text = True
    p.ordered_attributes = True
    state = {"decl": None, "root": None, "stack": [], "doctype": False, "trailing": []}

    def xmldecl(version, encoding, standalone):
        state["decl"] = {"version": version, "encoding": encoding, "standalone": standalone}

    def start(name, attrs):
        el = {"t": "elem", "name": name,
              "attrs": [[attrs[i], attrs[i + 1]] for i in range(0, len(attrs), 2)],
              "children": []}
        if state["stack"]:
            state["stack"][-1]["children"].append(el)
        else:
            if state["root"] is not None:
                raise ValueError("two roots")
            state["root"] = el
        state["stack"].append(el)

    def end(name):
        state["stack"].pop()

    def chars(s):
        if state["stack"]:
            ch = state["stack"][-1]["children"]
            if ch and ch[-1]["t"] == "text":
                ch[-1]["v"] += s
            else:
                ch.append({"t": "text", "v": s})

    def comment(s):
        if state["stack"]:
            state["stack"][-1]["children"].append({"t": "comment", "v": s})

    def pi(target, d):
        if state["stack"]:
            state["stack"][-1]["children"].append({"t": "pi", "v": target})

    def doctype(*a):
        state["doctype"] = True

    p.XmlDeclHandler = xmldecl
    p.StartElementHandler = start
    p.EndElementHandler = end
    p.CharacterDataHandler = chars
    p.CommentHandler = comment
    p.ProcessingInstructionHandler = pi
    p.StartDoctypeDeclHandler = doctype
    p.Parse(data, True)
    if state["root"] is None:
        raise ValueError("no root element")
    # namespace well-formedness: every prefix used must be declared (expat in
    # non-namespace mode does not check it)
    check_ns(state["root"], {"xml": "http://www.w3.org/XML/1998/namespace"})
    return {"decl": state["decl"], "root": state["root"], "doctype": state["doctype"]}


def check_ns(el, scope):
    scope = dict(scope)
    for k, v in el["attrs"]:
        if k == "xmlns":
            scope[""] = v
        elif k.startswith("xmlns:"):
            if v == "":
                raise ValueError("empty prefixed namespace")
            scope[k[6:]] = v
    names = [el["name"]] + [k for k, _ in el["attrs"] if not (k == "xmlns" or k.startswith("xmlns:"))]
    for n in names:
        if n.count(":") > 1:
            raise ValueError("bad qname " + n)
        if ":" in n:
            pfx = n.split(":")[0]
            if pfx not in scope:
                raise ValueError("undeclared namespace prefix " + pfx)
    for c in el["children"]:
        if c["t"] == "elem":
            check_ns(c, scope)


DECODERS = {
    "json": dec_json,
    "yaml": dec_yaml,
    "yamlmulti": lambda d: dec_yaml(d, multi=True),
    "toml": dec_toml,
    "xml": dec_xml,
}


def selftest():
    assert dec_json(b'{"a": [1, 2.5, "x", null, true]}')["v"][0][1]["v"][0] == {"t": "int", "v": "1"}
    y = dec_yaml(b"a: yes\nb: 'true'\nc: ~\nd: 0o17\ne: 1e3\nf: \"x\\ty\"\n")
    vals = {k["v"]: v for k, v in y["v"]}
    assert vals["a"] == {"t": "str", "v": "yes"}, vals
    assert vals["b"] == {"t": "str", "v": "true"}
    assert vals["c"] == {"t": "null"}
    assert vals["d"] == {"t": "int", "v": "15"}
    assert vals["e"]["t"] == "float"
    assert vals["f"] == {"t": "str", "v": "x\ty"}
    t = dec_toml(b'a = 1\n[b]\nc = "x"\n')
    assert t["v"][0] == ["a", {"t": "int", "v": "1"}]
    x = dec_xml(b'<?xml version="1.0"?><r a="1"><c>t&amp;</c></r>')
    assert x["root"]["children"][0]["children"][0]["v"] == "t&"
    m = dec_yaml(b"---\na: 1\n---\nb: 2\n", multi=True)
    assert len(m["v"]) == 2


def main():
    selftest()
    sys.stdout.write(json.dumps({"ready": True, "yaml": yaml is not None, "toml": tomllib is not None}) + "\n")
    sys.stdout.flush()
    for line in sys.stdin:
        line = line.strip()
        if not line:
            continue
        try:
            req = json.loads(line)
        except Exception as e:
            sys.stdout.write(json.dumps({"id": None, "ok": False, "error": "bad request: %s" % e}) + "\n")
            sys.stdout.flush()
            continue
        rid = req.get("id")
        try:
            data = base64.b64decode(req["data_b64"])
            tree = DECODERS[req["fmt"]](data)
            out = {"id": rid, "ok": True, "tree": tree}
        except RecursionError as e:
            out = {"id": rid, "ok": False, "error": "recursion: %s" % e}
        except Exception as e:
            out = {"id": rid, "ok": False, "error": "%s: %s" % (type(e).__name__, e)}
        sys.stdout.write(json.dumps(out) + "\n")
        sys.stdout.flush()


if __name__ == "__main__":
    main()
