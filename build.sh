#!/bin/bash
# Rebuild the engine (path dependency on /repo: any edit there is recompiled)
# and the ucg CLI binary from /repo's current working tree, hooks enabled.
set -u
cd "$(dirname "$0")"
export CARGO_NET_OFFLINE=true
export RUSTFLAGS="--cfg ucg_verif"
LOG=target/build.log
mkdir -p target
{
  cargo build --release --offline --manifest-path engine/Cargo.toml --target-dir target 2>&1 &&
  cargo build --release --offline --manifest-path /repo/Cargo.toml --bin ucg \
      --target-dir target/ucgbin \
      --config 'profile.release.debug=false' \
      --config 'profile.release.overflow-checks=true' \
      --config 'profile.release.debug-assertions=true' \
      --config 'profile.release.incremental=false' 2>&1
} > "$LOG.$$" 2>&1
rc=$?
mv -f "$LOG.$$" "$LOG" 2>/dev/null
if [ $rc -ne 0 ]; then
  echo "BUILD FAILED (see /verif/target/build.log):" >&2
  grep -E '^(error|warning: unused)' -A12 "$LOG" | head -80 >&2
  exit 2
fi
exit 0
