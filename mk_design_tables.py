#!/usr/bin/env python3
"""Refreshes the generated tables of DESIGN.md section 10 (between BEGIN/END markers)
from evidence/*.json, seeded/*/result.json, seeded/*/meta.json and mk_manifest.py."""
import json, glob, os, re
ROOT = os.path.dirname(os.path.abspath(__file__))

def table_checks():
    import importlib.util
    spec = importlib.util.spec_from_file_location("mk", os.path.join(ROOT, "mk_manifest.py"))
    thorough = {}
    for f in glob.glob(os.path.join(ROOT, "engine/src/props/c*.rs")):
        pid = "C" + os.path.basename(f)[1:3]
        m = re.search(r"Tier::Thorough => ([0-9_]+),", open(f).read())
        if m:
            thorough[pid] = m.group(1).replace("_", " ")
    rows = ["| id | oracle | quick: cases run (enumerated) | distinct non-trivial | wall | regressions replayed | thorough: generated cases |", "|---|---|---|---|---|---|---|"]
    oracle = {
        "C01": "reference interpreter (differential)", "C02": "precedence model", "C03": "independent decoders (Python, serde)", "C04": "result-or-diagnostic predicate, work bound, worker process",
        "C05": "parse∘print round trip, comments, fixed point", "C06": "conformance predicate", "C07": "checker off vs on (differential)", "C08": "dash and bash read the output back",
        "C09": "path / evaluate-once / cycle model over the CLI", "C10": "prefix metamorphism, scope templates", "C11": "reference lexer, layout metamorphism", "C12": "expat parse vs described tree",
        "C13": "verdict model over `ucg test`", "C14": "out = convert, directory before/after", "C15": "harness's own emitters + Python decoders", "C16": "alone vs batch (differential over the CLI)",
        "C17": "recorded spans, VIA, shift relation", "C18": "the environment the harness set", "C19": "reference implementations of the helpers", "C20": "fresh-server differential, range validity, parser/build agreement",
    }
    for i in range(1, 21):
        pid = "C%02d" % i
        p = os.path.join(ROOT, "evidence", pid + ".json")
        if not os.path.exists(p):
            continue
        d = json.load(open(p)); c = d["coverage"]
        rows.append("| %s | %s | %d (%d) | %d | %.0f s | %d | %s |" % (pid, oracle[pid], c["evaluations"], c.get("enumerated_cases", 0), c["distinct_nontrivial"], d.get("wall_s", c.get("wall_s", 0)) or 0, c.get("regressions_replayed", 0), thorough.get(pid, "")))
    return "\n".join(rows)

def table_matrix():
    rows = ["| change | round | what it does | quick check of its property (seed 0) | first signature |", "|---|---|---|---|---|"]
    caught = total = 0
    for d in sorted(glob.glob(os.path.join(ROOT, "seeded", "C*-*"))):
        name = os.path.basename(d)
        meta = json.load(open(os.path.join(d, "meta.json"))) if os.path.exists(os.path.join(d, "meta.json")) else {}
        res = json.load(open(os.path.join(d, "result.json"))) if os.path.exists(os.path.join(d, "result.json")) else {}
        title = re.sub(r"^C\d+\s*(/|seeded)?\s*(change|defect)?\s*\d*\s*[-–—:]*\s*", "", meta.get("title", "")).strip()
        title = title.replace("|", "\\|")
        total += 1
        if res.get("caught"):
            caught += 1
            verdict = "caught" + (" by %s" % res["caught_by_other_check"] if res.get("caught_by_other_check") else "") + " (%d s)" % res.get("wall_seconds", 0)
        elif not res:
            verdict = "not run"
        else:
            verdict = "**not caught**"
        sig = res.get("first_signature", "")
        if len(sig) > 70:
            sig = sig[:67] + "…"
        rows.append("| %s | %s | %s | %s | `%s` |" % (name, meta.get("round", ""), title[:110], verdict, sig))
    return "\n".join(rows) + "\n\n%d of %d caught by a registered check.\n" % (caught, total)

def list_strengthened():
    out = []
    for d in sorted(glob.glob(os.path.join(ROOT, "seeded", "C*-*"))):
        m = json.load(open(os.path.join(d, "meta.json")))
        if "check_strengthened" in m:
            out.append("* **%s** — %s." % (m["mutant"], m["check_strengthened"].rstrip(".")))
    return "\n".join(out)

def list_not_caught():
    out = []
    for d in sorted(glob.glob(os.path.join(ROOT, "seeded", "C*-*"))):
        m = json.load(open(os.path.join(d, "meta.json")))
        if "not_caught_by_its_own_check" in m:
            out.append("* **%s** — %s." % (m["mutant"], m["not_caught_by_its_own_check"].rstrip(".")))
    return "\n".join(out)

def main():
    p = os.path.join(ROOT, "DESIGN.md")
    s = open(p, encoding="utf-8").read()
    for key, fn in (("checks-table", table_checks), ("matrix-table", table_matrix), ("strengthened-list", list_strengthened), ("not-caught-list", list_not_caught)):
        b, e = "<!-- BEGIN:%s -->" % key, "<!-- END:%s -->" % key
        if b in s and e in s:
            i, j = s.index(b) + len(b), s.index(e)
            s = s[:i] + "\n" + fn() + "\n" + s[j:]
    open(p, "w", encoding="utf-8").write(s)
    print("DESIGN.md tables refreshed")

main()
