#!/bin/bash
# usage: sweep.sh <first seed> <last seed> [ids...] — silence sweep on the unchanged tree
a=$1; b=$2; shift 2
cd /verif
ids="$@"; [ -z "$ids" ] && ids=$(python3 -c "import json; print(' '.join(c['property_id'] for c in json.load(open('MANIFEST.json'))['checks']))")
mkdir -p /tmp/h/sweep
for id in $ids; do
  for s in $(seq $a $b); do
    out=$(VERIF_ROOT=/tmp/h/sweep/root nice -n 5 target/release/ucgverif $id quick --seed $s 2>&1); rc=$?
    if [ $rc -ne 0 ]; then echo "== $id seed=$s rc=$rc"; echo "$out" | grep -E "violation:|VIOLATION|INCONCLUSIVE" | cut -c1-600 | head -6; fi
  done
  echo "done $id"
done
