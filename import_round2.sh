#!/bin/bash
# usage: import_round2.sh <id> ...   copies /tmp/seeded2/<id>/{patch,demo,notes}{1,2} to seeded/<id>-3, <id>-4
cd /verif
for id in "$@"; do
  for n in 1 2; do
    [ -f /tmp/seeded2/$id/patch$n.diff ] || { echo "$id: no patch$n"; continue; }
    d=seeded/$id-$((n+2)); mkdir -p $d
    cp /tmp/seeded2/$id/patch$n.diff $d/patch.diff
    demo=$(ls /tmp/seeded2/$id/demo$n.* 2>/dev/null | head -1); [ -n "$demo" ] && cp $demo $d/$(basename $demo | sed "s/demo$n/demo/")
    cp /tmp/seeded2/$id/notes$n.md $d/notes.md 2>/dev/null
    echo 7625054 > $d/base_commit
  done
done
