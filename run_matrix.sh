#!/bin/bash
# usage: run_matrix.sh [<id>-<n> ...]   (default: every directory under seeded/)
# Applies each seeded change to /repo's working tree, runs the quick check of the
# property it breaks, records the verdict in seeded/<id>-<n>/result.json and
# restores the tree.  Nothing is committed in /repo.
cd /verif
names=${@:-$(ls seeded | grep -E '^C[0-9]+-[0-9]+$')}
for name in $names; do
  id=${name%%-*}
  d=/verif/seeded/$name
  p=$d/patch.current.diff; [ -f $p ] || p=$d/patch.diff
  git -C /repo checkout -q -- .
  if ! git -C /repo apply $p 2>/dev/null; then
    echo "{\"mutant\": \"$name\", \"patch\": \"$p\", \"applies\": false}" > $d/result.json
    echo "$name: does not apply"; continue
  fi
  start=$(date +%s)
  out=$(VERIF_SEED=0 ./check $id quick 2>&1); rc=$?
  end=$(date +%s)
  other=""; 
  if [ $rc -ne 1 ] && [ -f $d/also_checks ]; then
    for oid in $(cat $d/also_checks); do
      out2=$(VERIF_SEED=0 ./check $oid quick 2>&1); rc2=$?
      if [ $rc2 -eq 1 ]; then other=$oid; out="$out2"; break; fi
    done
  fi
  git -C /repo checkout -q -- .
  sig=$(echo "$out" | grep -a -E '^violation: ' | head -1 | sed 's/^violation: //' | cut -d' ' -f1 | sed 's/:$//')
  nviol=$(echo "$out" | grep -a -c '^VIOLATION ')
  python3 - "$name" "$p" "$rc" "$sig" "$nviol" "$((end-start))" "$other" > $d/result.json <<'PY'
import json,sys
name,p,rc,sig,n,secs,other=sys.argv[1:]
d={"mutant":name,"patch":p,"applies":True,"check":name.split('-')[0],"tier":"quick","seed":0,"exit_code":int(rc),"violations":int(n),"first_signature":sig,"wall_seconds":int(secs),"caught":(int(rc)==1 or bool(other)) and int(n)>0}
if other: d["caught_by_other_check"]=other
print(json.dumps(d,indent=1))
PY
  echo "$name: rc=$rc violations=$nviol sig=$sig (${secs:-$((end-start))}s)"
done
git -C /repo checkout -q -- .
./build.sh
