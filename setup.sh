#!/bin/bash
# One-time setup after a fresh restore, offline: build everything from disk.
cd "$(dirname "$0")" || exit 2
./build.sh || exit 1
echo "setup ok"
