#!/bin/bash
# usage: confirm_seed.sh <id> <n> [<id> <n> ...]
# Confirms a seeded change in a scratch worktree of the ORIGINAL commit: the
# repository's test suite passes with it, the demonstration fails with it and
# passes without it.  Results are appended to /tmp/seeded4/confirm.log.
BASE=34541be
WT=/tmp/wt4/confirm
export CARGO_NET_OFFLINE=true RUST_BACKTRACE=0
if [ ! -d $WT ]; then git -C /repo worktree add -q --detach $WT $BASE || exit 2; mkdir -p $WT/target; cp -a /repo/target/debug $WT/target/debug; fi
while [ $# -ge 2 ]; do
  id=$1; n=$2; shift 2
  d=/tmp/seeded4/$id
  git -C $WT checkout -q -- . ; git -C $WT clean -fdq -e target
  demo=$(ls $d/demo$n.* 2>/dev/null | head -1)
  # clean tree: demo passes
  ( cd $WT && cargo build --offline -q 2>/dev/null; UCG_SRC=$WT WT=$WT WORKTREE=$WT bash $demo $WT ) > $d/confirm$n.clean.log 2>&1; rc_clean=$?
  git -C $WT checkout -q -- . ; git -C $WT clean -fdq -e target
  if ! git -C $WT apply $d/patch$n.diff; then echo "$id/$n: PATCH DOES NOT APPLY" >> /tmp/seeded4/confirm.log; continue; fi
  ( cd $WT && cargo test --offline --no-fail-fast 2>&1 | grep -E "^test result|FAILED|failed|error" ) > $d/confirm$n.tests.log 2>&1
  passed=$(grep -E "^test result" $d/confirm$n.tests.log | awk '{s+=$4} END{print s}')
  failed=$(grep -E "^test result" $d/confirm$n.tests.log | awk '{s+=$6} END{print s}')
  ( cd $WT && UCG_SRC=$WT WT=$WT WORKTREE=$WT bash $demo $WT ) > $d/confirm$n.patched.log 2>&1; rc_patched=$?
  git -C $WT checkout -q -- . ; git -C $WT clean -fdq -e target
  echo "$id/$n: tests passed=$passed failed=$failed demo_clean_rc=$rc_clean demo_patched_rc=$rc_patched" >> /tmp/seeded4/confirm.log
done
