#!/bin/bash
# usage: try_patch.sh <patch file> <property id>...   — apply a seeded change to
# /repo, run the quick checks named, always undo the change.
patch="$1"; shift
cd /verif
if ! git -C /repo apply --check "$patch" 2>/dev/null; then echo "patch does not apply: $patch"; exit 3; fi
git -C /repo apply "$patch"
trap 'git -C /repo checkout -- . ; git -C /repo status --short | grep -v "^??" ' EXIT
for id in "$@"; do
  out=$(./check "$id" quick 2>&1); rc=$?
  echo "== $id rc=$rc"; echo "$out" | grep -E "VIOLATION|violation:|INCONCLUSIVE|BUILD FAILED|KNOWN" | cut -c1-400 | head -8
done
