#!/usr/bin/env python3
"""Writes seeded/<id>-<n>/meta.json from the notes of the agent that produced the
change, the confirmation log (scratch worktree of the original commit) and the
result of run_matrix.sh (current tree + change, quick check)."""
import json, os, re, glob

ROOT = os.path.dirname(os.path.abspath(__file__))
BASE = "43edbb9"

# what had to be added to a check before it caught the change (from the work log)
STRENGTHENED = {
    "C01-1": "missed at first: the program generator never reused an outer binding's name for a parameter; parameter shadowing added to proggen",
    "C04-2": "missed at first: no generated input had a comment in front of a later map/filter/reduce argument; class `commented-program` (valid programs laid out with comments between any two tokens) added to C04",
    "C07-1": "missed at first: generated lists/selects only held tuples with identical field sets; heterogeneous tuples with a field only some have added to proggen",
    "C09-1": "missed at first: no run passed the entry file with a `../` spelling; a fourth run from a sub-directory with a `../` argument added",
    "C10-2": "missed at first: no `constraint` statements; eight fixed must-fail rebinding cases incl. rebinding through `constraint` added",
    "C12-2": "caught only incidentally at first; node tuples now get a randomised field order and malformed name+text nodes in both orders",
    "C13-2": "missed at first: the log of an assert without a boolean `ok` was not counted; entry count and numbering of the log are now checked and asserts with a missing `ok` generated",
    "C15-2": "missed at first: every build included each file once; several includes of the same path under different types in one build added",
    "C20-1": "after the UTF-16 repair in /repo the change needs an escape before a non-ASCII character inside a string; such lines were added to the text pool",
    # second round
    "C01-3": "missed at first: copies were rare in generated programs and `self` never reached a format expression; copy statements over tuples in scope and `self` as format argument / inside the template added to proggen",
    "C01-4": "missed at first: no generated float was a negative zero, an infinity or a NaN; arithmetic producing them added to the float leaves",
    "C03-3": "missed at first: C03 never built a file over an existing artifact; a fourth leg builds 1 in 8 values as a file next to older, longer artifacts of the same name",
    "C04-3": "ported onto the repaired narrowing cache (patch.current.diff); caught by the constraint-program class added in this round (recursive constraints applied to values nested up to 14 deep, with the work bound on Shape::narrow)",
    "C04-4": "missed at first: no generated program included a data file; includes of empty / blank / malformed / binary / missing files under every type added to the edge programs",
    "C06-3": "missed at first: alternatives were primitives only; tuple and list alternatives with prefix / extension / changed-value probes added",
    "C06-4": "missed at first: values were literals or opaque computations; tuples built by copying a base and overriding every field added (statically visible shape)",
    "C09-3": "missed at first: all files of a project differed; byte-identical twin files in two directories, each importing its own ./leaf.ucg, added",
    "C09-4": "missed at first: only relative spellings; absolute spellings with ., .. and // segments added",
    "C12-3": "missed at first: namespace URIs were never empty; `ns = \"\"` under an inherited default namespace added",
    "C14-3": "caught, but through a harness panic (indexing a deleted artifact); the harness now reports `failed-build-destroys-artifact ... deleted`",
    "C14-4": "missed at first: nothing was evaluated between two out statements; function calls, map/reduce, format expressions, module instantiation and imports before / between the outs added",
    "C15-3": "missed at first: corruptions kept the file valid UTF-8; stray bytes that make it invalid UTF-8 added (also for include str)",
    "C15-4": "missed at first: unknown include types were only tried on a non-empty file; empty and blank files added",
    "C16-3": "missed at first: no lazily linked broken import, and artifacts of files that fail alone were not compared; both added",
    "C16-4": "missed at first: batches were only run from the project root; the same batch from a directory below with every argument spelled ../ added",
    "C17-4": "missed at first: calls were never arguments of other calls; a statement shape with a nested call added",
    "C07-3": "missed at first (an apparent catch was a defect of the unchanged tree, repaired as e3ec5f2): lists were homogeneous; joins of lists of different lengths and element types added to proggen",
    "C07-4": "missed until the last full run of the matrix (an earlier apparent catch was a defect of the unchanged tree): no list was grown from the empty list, bound and then indexed by a literal; added to proggen",
    "C10-4": "missed at first: shows only in `ucg repl`, which no check drove; 1 in 40 C10 cases is now a repl session of refused rebindings with the name read back in between",
    "C11-4": "missed at first: shows only in `ucg repl`; 1 in 400 C11 cases now types a multi-line string literal into the repl and compares it with the one-line literal",
    "C18-4": "missed at first: shows only in `ucg repl`; 1 in 3 strict reads of an unset variable is now also typed into the repl with the planted secret in the environment",
    "C17-3": "missed at first: no fault was a call argument of the wrong type; added (judged on the checker's diagnostic) and the change was then caught",
    "C20-3": "missed at first: every edit replaced the text by an unrelated one; edits that move the same text (blank lines, comments, indentation) added",
}

STRENGTHENED.update({
    # third round
    "C01-5": "missed at first: selects on a boolean only had arms named true / false; arms of other names before, between and after them added",
    "C02-5": "missed at first: chains had at most 10 operators; runs of 40..160 operators of one precedence level added",
    "C04-5": "missed at first: nothing counted the work of the AST walker; a third guarded hook commit ticks in Walker::walk_expression and functional operations nested in each other's callbacks (up to 31 deep) are generated",
    "C04-6": "missed at first: no function repeated a parameter name; functions with repeated names as select arms and list items added",
    "C06-6": "missed at first: named constraints were only written bare; `:: (name)` added as a fourth form",
    "C07-5": "missed at first: record functions read at most two fields and were rarely called; they now read up to four and are called in the next statement",
    "C08-5": "missed at first: list flags only held primitives; nested lists and tuples inside a list flag (first, middle) added",
    "C09-5": "missed at first: no import sat in the argument of an expression format or was deferred through a function of a finished helper file; both positions added",
    "C10-5": "missed at first: reserved words were only tried as let names; every reserved word is now also tried as the parameter of a called function and of a map callback (this also found that `env` was accepted there on the unchanged tree, repaired)",
    "C10-6": "missed at first: scope templates were only evaluated with eval_string; they are now also built as files, and a template with a module nested in a module was added",
    "C11-6": "missed at first: string literals were only evaluated from strings; 1 in 8 is now also read from a file on disk, and zero-width characters (U+FEFF, U+200B) joined the alphabet",
    "C12-5": "missed at first: namespaces were only declared through ns; a default namespace declared as the attribute xmlns added (and modelled as a declaration)",
    "C12-6": "missed at first: names came from Latin-1, Greek and CJK; Latin Extended and IPA letters added",
    "C13-5": "missed at first: asserts only stood at the top level; asserts in the body of a module instantiated by a function applied through map added",
    "C13-6": "missed at first: `ucg test` was never run with --no-strict; the first order of every case is now run once more with it",
    "C15-5": "missed at first: raw files were at most 40 bytes; lengths around 1 KiB, 2 KiB, 4 KiB added",
    "C16-5": "missed at first: projects had one sub directory and no same-named siblings; a library in lib/ that imports its own ./defaults.ucg and is imported from lib/ and from app/ (which has another defaults.ucg) added",
    "C20-5": "missed at first: the workspace had three independent disk files; six diamonds of disk files (top imports base and mid, mid imports base, the type error in top shows only through mid) added, with sessions that open and close the middle file before opening the top",
    "C16-6": "missed at first: no data file was shared between files; every project now has key.bin, which entry files include as b64 or b64urlsafe",
    "C17-5": "missed at first: map / filter callbacks were inline and their lists literal; a list bound in its own statement mapped / filtered by a named one-argument function in another statement added (this also found that the unchanged tree reported faults in such functions at the use of the result, repaired)",
    "C17-6": "missed at first: no fault was a missing field of a select result bound earlier; added",
    "C18-5": "missed at first: only `ucg build` and the repl were driven; reads of an unset variable now also run under `ucg [--no-strict] test`",
    "C18-6": "missed at first: the repl leg only looked for disclosed values; in strict mode the output must now also name the unset variable",
    "C19-5": "missed at first: the text after the integer was ASCII; non-ASCII digits right after it added",
    "C19-6": "missed at first: slice indices were ordered; reversed in-range pairs (empty result) added",
    "C20-6": "missed at first: every didChange carried one content change; 1 in 4 now carries an earlier, superseded text before the current one",
})

STRENGTHENED.update({
    # fourth round
    "C01-7": "missed at first: inside a copy `self` only stood in operands, format arguments and templates; `self` used only as the base of an inner copy (base{k = self{k2 = v}.k}) added to proggen",
    "C09-7": "missed by C09 at first (C16's same-named siblings caught it): a decoy leaf.ucg of another shape is now written next to the entry file whenever the project has the twins that import their own ./leaf.ucg",
    "C15-7": "missed at first: includes were only built in strict mode; every C15 case is now judged in strict mode and again under --no-strict",
    "C17-7": "missed at first: the only failed cast was int(\"x\"); failed casts to float and to bool inside an int cast added",
})

# changes that are not caught by the check of their property, and why
NOT_CAUGHT = {
    "C13-7": "no longer manifests on the current tree: repairs ec2f5e3 / 5cf8b0c (found by the C13 generator extended in this round, before this change arrived) make every tested file evaluate its imports itself, so a value cached by an earlier build is never served; its demonstration passes on HEAD + patch.current.diff",
    "C16-7": "no longer manifests as a C16 violation on the current tree: after repair 5cf8b0c imports are evaluated per entry-file build, so the cache hit the change needs never crosses files (its demonstration passes on HEAD + patch). The demonstration did show that the intermediate repair afa4408 was wrong (Z.ucg succeeded in a batch and failed alone); the C16 generator extended with libraries that have both an out and a module with an out fails on afa4408 too (regressions/C16/cached-import-skips-library-out-lock.json)",
    "C02-6": "changes evaluation in the translator, not the parse tree C02 observes; caught by C01",
    "C02-4": "changes evaluation, not the parse tree C02 observes (`ucglib::parse::parse`); caught by C01 (compiled evaluation vs reference semantics)",
    "C17-3": "no longer manifests on the current tree: repair d250689 re-anchors the diagnostic for a call argument at the argument, which neutralises this change for its trigger (its demonstration passes on HEAD + patch); it was caught by C17 (`wrong-argument-type`) before that repair",
    "C18-3": "no longer manifests on the current tree: repair f3aa3d3 removed the checker defect (env inferred as a one-field tuple) that this change exposed; its demonstration passes on HEAD + patch. C18 now reads several variables per program and fails on the tree without f3aa3d3",
}

conf = {}
for logname, offset in (("confirm.log", 0), ("confirm2.log", 2), ("confirm3.log", 4), ("confirm4.log", 6)):
    lp = os.path.join(ROOT, "seeded", logname)
    if not os.path.exists(lp):
        continue
    for l in open(lp):
        m = re.match(r"(C\d+)/(\d): tests passed=(\d+) failed=(\d+) demo_clean_rc=(\d+) demo_patched_rc=(\d+)", l)
        if m:
            conf[f"{m.group(1)}-{int(m.group(2)) + offset}"] = dict(tests_passed=int(m.group(3)), tests_failed=int(m.group(4)), demo_rc_clean_tree=int(m.group(5)), demo_rc_changed_tree=int(m.group(6)))

for d in sorted(glob.glob(os.path.join(ROOT, "seeded", "C*-*"))):
    name = os.path.basename(d)
    pid = name.split("-")[0]
    BASE = open(os.path.join(d, "base_commit")).read().strip() if os.path.exists(os.path.join(d, "base_commit")) else "43edbb9"
    notes = open(os.path.join(d, "notes.md"), encoding="utf-8").read()
    title = notes.splitlines()[0].lstrip("# ").strip()
    needs = ""
    paras = re.split(r"\n\s*\n", notes)
    for p in paras:
        if re.search(r"(?i)needed to (manifest|trigger|see)|what is needed|when it manifests", p):
            needs = " ".join(x.strip() for x in p.splitlines())
            break
    files = sorted(set(re.findall(r"^\+\+\+ b/(\S+)", open(os.path.join(d, "patch.diff")).read(), re.M)))
    res = {}
    rp = os.path.join(d, "result.json")
    if os.path.exists(rp):
        res = json.load(open(rp))
    demo = [f for f in os.listdir(d) if f.startswith("demo.")]
    meta = {
        "mutant": name,
        "breaks_property": pid,
        "title": title,
        "files_changed": files,
        "needs_to_manifest": needs,
        "produced_by": "a fresh sub-agent given only the property text and a scratch worktree of commit %s (nothing from /verif)" % BASE,
        "patch": "patch.diff (applies to %s)" % BASE + ("; patch.current.diff is the same edit ported onto the current /repo HEAD, whose repairs touched the same lines" if os.path.exists(os.path.join(d, "patch.current.diff")) else "; also applies to the current /repo HEAD"),
        "demonstration": demo[0] if demo else None,
        "confirmed": dict(
            how="confirm_seed.sh / confirm_seed2.sh / confirm_seed3.sh / confirm_seed4.sh: scratch worktree of %s outside /repo and /verif; demonstration on the clean tree, patch applied, `cargo test --offline --no-fail-fast`, demonstration on the changed tree; worktree removed afterwards" % BASE,
            **conf.get(name, {}),
        ),
        "check_result": dict(
            how="run_matrix.sh: `git -C /repo apply <patch>`; `VERIF_SEED=0 ./check %s quick`; `git -C /repo checkout -- .` (nothing committed in /repo)" % pid,
            **{k: res[k] for k in ("patch", "exit_code", "violations", "first_signature", "wall_seconds", "caught") if k in res},
        ),
    }
    meta["round"] = {"43edbb9": 1, "7625054": 2, "34541be": 4}.get(BASE, 3)
    for k in ("caught_by_other_check",):
        if k in res:
            meta["check_result"][k] = res[k]
    if name in STRENGTHENED:
        meta["check_strengthened"] = STRENGTHENED[name]
    if name in NOT_CAUGHT:
        meta["not_caught_by_its_own_check"] = NOT_CAUGHT[name]
    json.dump(meta, open(os.path.join(d, "meta.json"), "w"), indent=1, ensure_ascii=False)
print("wrote", len(glob.glob(os.path.join(ROOT, "seeded", "C*-*", "meta.json"))), "meta.json files")
