#!/usr/bin/env python3
"""Writes seeded/<id>-<n>/meta.json from the notes of the agent that produced the
change, the confirmation log (scratch worktree of the original commit) and the
result of run_matrix.sh (current tree + change, quick check)."""
import json, os, re, glob

ROOT = os.path.dirname(os.path.abspath(__file__))
BASE = "43edbb9"

# what had to be added to a check before it caught the change (from the work log)
STRENGTHENED = {
    "C01-1": "missed at first: the program generator never reused an outer binding's name for a parameter; parameter shadowing added to proggen",
    "C04-2": "missed at first: no generated input had a comment in front of a later map/filter/reduce argument; class `commented-program` (valid programs laid out with comments between any two tokens) added to C04",
    "C07-1": "missed at first: generated lists/selects only held tuples with identical field sets; heterogeneous tuples with a field only some have added to proggen",
    "C09-1": "missed at first: no run passed the entry file with a `../` spelling; a fourth run from a sub-directory with a `../` argument added",
    "C10-2": "missed at first: no `constraint` statements; eight fixed must-fail rebinding cases incl. rebinding through `constraint` added",
    "C12-2": "caught only incidentally at first; node tuples now get a randomised field order and malformed name+text nodes in both orders",
    "C13-2": "missed at first: the log of an assert without a boolean `ok` was not counted; entry count and numbering of the log are now checked and asserts with a missing `ok` generated",
    "C15-2": "missed at first: every build included each file once; several includes of the same path under different types in one build added",
    "C20-1": "after the UTF-16 repair in /repo the change needs an escape before a non-ASCII character inside a string; such lines were added to the text pool",
}

conf = {}
for l in open(os.path.join(ROOT, "seeded", "confirm.log")):
    m = re.match(r"(C\d+)/(\d): tests passed=(\d+) failed=(\d+) demo_clean_rc=(\d+) demo_patched_rc=(\d+)", l)
    if m:
        conf[f"{m.group(1)}-{m.group(2)}"] = dict(tests_passed=int(m.group(3)), tests_failed=int(m.group(4)), demo_rc_clean_tree=int(m.group(5)), demo_rc_changed_tree=int(m.group(6)))

for d in sorted(glob.glob(os.path.join(ROOT, "seeded", "C*-*"))):
    name = os.path.basename(d)
    pid = name.split("-")[0]
    notes = open(os.path.join(d, "notes.md"), encoding="utf-8").read()
    title = notes.splitlines()[0].lstrip("# ").strip()
    needs = ""
    paras = re.split(r"\n\s*\n", notes)
    for p in paras:
        if re.search(r"(?i)needed to (manifest|trigger|see)|what is needed|when it manifests", p):
            needs = " ".join(x.strip() for x in p.splitlines())
            break
    files = sorted(set(re.findall(r"^\+\+\+ b/(\S+)", open(os.path.join(d, "patch.diff")).read(), re.M)))
    res = {}
    rp = os.path.join(d, "result.json")
    if os.path.exists(rp):
        res = json.load(open(rp))
    demo = [f for f in os.listdir(d) if f.startswith("demo.")]
    meta = {
        "mutant": name,
        "breaks_property": pid,
        "title": title,
        "files_changed": files,
        "needs_to_manifest": needs,
        "produced_by": "a fresh sub-agent given only the property text and a scratch worktree of commit %s (nothing from /verif)" % BASE,
        "patch": "patch.diff (applies to %s)" % BASE + ("; patch.current.diff is the same edit ported onto the current /repo HEAD, whose repairs touched the same lines" if os.path.exists(os.path.join(d, "patch.current.diff")) else "; also applies to the current /repo HEAD"),
        "demonstration": demo[0] if demo else None,
        "confirmed": dict(
            how="confirm_seed.sh: scratch worktree of %s outside /repo and /verif; demonstration on the clean tree, patch applied, `cargo test --offline --no-fail-fast`, demonstration on the changed tree; worktree removed afterwards" % BASE,
            **conf.get(name, {}),
        ),
        "check_result": dict(
            how="run_matrix.sh: `git -C /repo apply <patch>`; `VERIF_SEED=0 ./check %s quick`; `git -C /repo checkout -- .` (nothing committed in /repo)" % pid,
            **{k: res[k] for k in ("patch", "exit_code", "violations", "first_signature", "wall_seconds", "caught") if k in res},
        ),
    }
    if name in STRENGTHENED:
        meta["check_strengthened"] = STRENGTHENED[name]
    json.dump(meta, open(os.path.join(d, "meta.json"), "w"), indent=1, ensure_ascii=False)
print("wrote", len(glob.glob(os.path.join(ROOT, "seeded", "C*-*", "meta.json"))), "meta.json files")
