#!/bin/bash
# usage: import_round3.sh <id> ...   copies /tmp/seeded4/<id>/{patch,demo,notes}{1,2} to seeded/<id>-5, <id>-6
cd /verif
for id in "$@"; do
  for n in 1; do
    [ -f /tmp/seeded4/$id/patch$n.diff ] || { echo "$id: no patch$n"; continue; }
    d=seeded/$id-$((n+6)); mkdir -p $d
    cp /tmp/seeded4/$id/patch$n.diff $d/patch.diff
    demo=$(ls /tmp/seeded4/$id/demo$n.* 2>/dev/null | head -1); [ -n "$demo" ] && cp $demo $d/$(basename $demo | sed "s/demo$n/demo/")
    cp /tmp/seeded4/$id/notes$n.md $d/notes.md 2>/dev/null
    echo 34541be > $d/base_commit
  done
done
