#!/bin/bash
# usage: import_round3.sh <id> ...   copies /tmp/seeded3/<id>/{patch,demo,notes}{1,2} to seeded/<id>-5, <id>-6
cd /verif
for id in "$@"; do
  for n in 1 2; do
    [ -f /tmp/seeded3/$id/patch$n.diff ] || { echo "$id: no patch$n"; continue; }
    d=seeded/$id-$((n+4)); mkdir -p $d
    cp /tmp/seeded3/$id/patch$n.diff $d/patch.diff
    demo=$(ls /tmp/seeded3/$id/demo$n.* 2>/dev/null | head -1); [ -n "$demo" ] && cp $demo $d/$(basename $demo | sed "s/demo$n/demo/")
    cp /tmp/seeded3/$id/notes$n.md $d/notes.md 2>/dev/null
    echo d250689 > $d/base_commit
  done
done
