#!/bin/bash
# Baseline with the guard OFF: cargo test + the two `ucg test` suites of the Makefile.
cd /repo || exit 2
export CARGO_NET_OFFLINE=true RUST_BACKTRACE=0
mkdir -p /tmp/h
cargo test --workspace --no-fail-fast --offline 2>&1 | grep -E "^test result|FAILED|failed|panicked" | head -20
cargo build --offline -q 2>/dev/null
echo "integration PASS lines: $(HOME=/tmp/h ./target/debug/ucg test -r integration_tests 2>&1 | grep -c -- '- PASS') FAIL: $(HOME=/tmp/h ./target/debug/ucg test -r integration_tests 2>&1 | grep -c -- '- FAIL')"
echo "std PASS lines: $(HOME=/tmp/h ./target/debug/ucg test -r std/tests 2>&1 | grep -c -- '- PASS') FAIL: $(HOME=/tmp/h ./target/debug/ucg test -r std/tests 2>&1 | grep -c -- '- FAIL')"
